"""Engine E1 `cachesim` (property C18): the real giscanner/cachestore.py, Transformer._parse_include,
GIRParser and pickle, run as several simulated scanner processes over SimFS under a seeded
scheduler with kills, short I/O, cross-device temp directories and injected OS errors; checked
against a shadow model (DESIGN.md §3)."""
import errno
import hashlib
import os
import io
import pickle
import pickletools
import random
import traceback
import types
import xml.etree.ElementTree as ET

from . import core
from .simfs import (SIM_ROOT, SimFS, World, Seam, Directive, RUN, Killed, SeamGap, HarnessError,
                    current_proc)

ENGINE = 'cachesim'
PROP = 'C18'

LIBDIR = SIM_ROOT + '/lib/giscanner'
LIBFILES = ['__init__.py', 'ast.py', 'cachestore.py', 'transformer.py', 'utils.py']
ARGV0 = SIM_ROOT + '/bin/g-ir-scanner'
HOME = SIM_ROOT + '/home/user'
XDG = SIM_ROOT + '/xdgcache'
TMP = SIM_ROOT + '/tmp'
GIRA = SIM_ROOT + '/gir/a'
GIRB = SIM_ROOT + '/gir/b'
SOURCES = {'A': GIRA + '/Dep-1.0.gir', 'B': GIRB + '/Dep-1.0.gir', 'BASE': GIRA + '/Base-1.0.gir',
           'BASEB': GIRB + '/Base-1.0.gir'}
SRC_KEYS = ['A', 'B', 'BASE', 'BASEB']
STAMP = '.cache-version'


# ---------------------------------------------------------------------------------------
# Source GIR text: version k of a source defines a record named V<k> (plus filler types
# whose names also carry k), so a parse is attributable to exactly one version.
# ---------------------------------------------------------------------------------------

def gir_text(key, k, ntypes, include_base):
    ns = 'Base' if key in ('BASE', 'BASEB') else 'Dep'
    tag = {'A': 'a', 'B': 'b', 'BASE': 'base', 'BASEB': 'baseb'}[key]
    out = ['<?xml version="1.0"?>',
           '<repository version="1.2" xmlns="http://www.gtk.org/introspection/core/1.0" '
           'xmlns:c="http://www.gtk.org/introspection/c/1.0" '
           'xmlns:glib="http://www.gtk.org/introspection/glib/1.0">']
    if key == 'A' and include_base:
        out.append('<include name="Base" version="1.0"/>')
    out.append('<package name="%s-%s-1.0"/>' % (ns.lower(), tag))
    out.append('<c:include name="%s-%s.h"/>' % (ns.lower(), tag))
    out.append('<namespace name="%s" version="1.0" shared-library="lib%s-%s.so.%d" '
               'c:identifier-prefixes="%s" c:symbol-prefixes="%s">' % (ns, ns.lower(), tag, k, ns, ns.lower()))
    out.append('<record name="V%d" c:type="%sV%d"><field name="src_%s" writable="1">'
               '<type name="gint" c:type="gint"/></field></record>' % (k, ns, k, tag))
    for i in range(ntypes):
        kind = i % 5
        nm = 'T%dx%d' % (k, i)
        if kind == 0:
            out.append('<record name="%s" c:type="%s%s"><field name="f"><type name="gint" c:type="gint"/>'
                       '</field></record>' % (nm, ns, nm))
        elif kind == 1:
            out.append('<enumeration name="%s" c:type="%s%s"><member name="a" value="%d" '
                       'c:identifier="%s_%s_A"/></enumeration>' % (nm, ns, nm, i, ns.upper(), nm.upper()))
        elif kind == 2:
            out.append('<alias name="%s" c:type="%s%s"><type name="gint" c:type="gint"/></alias>' % (nm, ns, nm))
        elif kind == 3:
            out.append('<callback name="%s" c:type="%s%s"><return-value transfer-ownership="none">'
                       '<type name="none" c:type="void"/></return-value></callback>' % (nm, ns, nm))
        else:
            out.append('<bitfield name="%s" c:type="%s%s"><member name="a" value="1" '
                       'c:identifier="%s_%s_A"/></bitfield>' % (nm, ns, nm, ns.upper(), nm.upper()))
    out.append('</namespace></repository>')
    return ('\n'.join(out) + '\n').encode('utf-8')


_digest_cache = {}
_pickle_cache = {}


def pickle_ok(data):
    data = bytes(data)
    key = hashlib.sha1(data).digest()
    r = _pickle_cache.get(key)
    if r is None:
        try:
            # structural pre-check in pure Python first: the C unpickler can spin forever on
            # some torn inputs (seen with two different pickles interleaved in one inode)
            last = None
            for op, arg, pos in pickletools.genops(data):
                last = op.name
            if last != 'STOP':
                raise ValueError('no STOP')
            pickle.loads(data)
            r = True
        except Exception:
            r = False
        if len(_pickle_cache) > 8192:
            _pickle_cache.clear()
        _pickle_cache[key] = r
    return r


def parser_digest(parser):
    """Canonical fingerprint of everything a parsed dependency contributes."""
    from giscanner.girwriter import GIRWriter
    ns = parser.get_namespace()
    xml = GIRWriter(ns).get_xml()
    extra = repr((ns.name, ns.version, sorted(str(i) for i in ns.includes),
                  sorted(ns.exported_packages), sorted(ns.c_includes),
                  list(ns.identifier_prefixes or []), list(ns.symbol_prefixes or []),
                  list(ns.shared_libraries or []), sorted(ns.names.keys())))
    return hashlib.sha256((xml + extra).encode('utf-8')).hexdigest()[:20]


def reference_digest(data):
    """Digest of a cache-less parse of these bytes (the reference model's answer)."""
    key = hashlib.sha256(data).digest()
    d = _digest_cache.get(key)
    if d is None:
        from giscanner.girparser import GIRParser
        p = GIRParser(types_only=True)
        p.parse_tree(ET.parse(io.BytesIO(data)))
        d = parser_digest(p)
        if len(_digest_cache) > 4096:
            _digest_cache.clear()
        _digest_cache[key] = d
    return d


# ---------------------------------------------------------------------------------------
# Configuration and workload generation (all from one PRNG, before execution starts)
# ---------------------------------------------------------------------------------------

EXOTIC_GARBAGE = [
    b'cnosuchmodule\nX\n.',                                      # ModuleNotFoundError
    b'cos\nnosuchattr\n.',                                       # AttributeError
    b'I12x\n.',                                                  # ValueError
    b'\x80\x04\x8c\x05\xff\xfe\xfd\xfc\xfb.',                      # UnicodeDecodeError
    b'cbuiltins\nlen\n(tR.',                                     # TypeError
    b'\x80\x04\x8e\xff\xff\xff\xff\xff\xff\xff\x7fabc',             # OverflowError
    b'\x80\x04cbuiltins\ngetattr\n(K\x01\x8c\x01xtR.',            # AttributeError from a reduce
    b'\x80\x04h\x05.',                                           # UnpicklingError (memo)
]

FAMILIES = ('sched', 'crash', 'oserr', 'midmod')


def gen_config(rng, family, thorough):
    cfg = {
        'family': family,
        'tmp_same_device': rng.random() < 0.5,
        'stdio_buffer': rng.choice([64, 256, 1024, 8192, 65536]),
        'copy_chunk': rng.choice([16, 64, 256, 4096, 65536]),
        'strategy': rng.choice(['uniform', 'uniform', 'pct', 'pct', 'rr', 'starve']),
        'pct_k': rng.randint(0, 3),
        'ntypes': rng.choice([0, 0, 1, 2, 3, 5, 8] + ([20, 40, 120] if thorough else [12])),
        'xdg': rng.random() < 0.7,
        'include_base': rng.random() < 0.5,
        'clock': 'distinct',
        'p_short': 0.0, 'p_kill': 0.0, 'p_killmid': 0.0, 'max_kills': 0, 'p_err': 0.0,
        'errs': [],
    }
    if family in ('crash', 'oserr'):
        cfg['p_short'] = rng.choice([0.0, 0.05, 0.2])
        cfg['p_kill'] = rng.choice([0.0, 0.01, 0.03])
        cfg['p_killmid'] = rng.choice([0.0, 0.02, 0.05])
        cfg['max_kills'] = rng.choice([1, 1, 2, 3])
    if family == 'oserr':
        cfg['errs'] = sorted(rng.sample(['ENOSPC', 'EACCES', 'EIO'], rng.randint(1, 3)))
        cfg['p_err'] = rng.choice([0.01, 0.03, 0.08])
    return cfg


def gen_workload(rng, cfg, thorough):
    nep = rng.randint(1, 6 if thorough else 4)
    focus = rng.choice(['A', 'A', 'A', 'B', 'BASE'])      # bias the history towards one entry
    epochs = []
    for e in range(nep):
        env = []
        if e > 0:
            n_env = rng.choice([0, 1, 1, 2, 3])
            for _ in range(n_env):
                r = rng.random()
                key = focus if rng.random() < 0.7 else rng.choice(SRC_KEYS)
                if r < 0.40:
                    env.append(['rewrite', key, rng.choice(['inplace', 'replace', 'preserved'])])
                elif r < 0.48:
                    env.append(['touch', key])
                elif r < 0.66:
                    files = sorted(rng.sample(range(len(LIBFILES) + 1), rng.randint(1, 3)))
                    env.append(['upgrade', rng.choice(['mtime', 'mtime', 'add', 'remove', 'older']), files])
                elif r < 0.88:
                    kind = rng.choice(['truncate', 'truncate', 'zeros', 'ff', 'text', 'empty', 'exotic'])
                    env.append(['damage', key, kind, rng.random()])
                elif r < 0.94:
                    env.append([rng.choice(['del_stamp', 'del_stamp', 'empty_stamp', 'garble_stamp'])])
                else:
                    env.append(['stray_tmp'])
            if cfg['family'] == 'oserr' and 'ENOSPC' in cfg['errs'] and rng.random() < 0.6:
                env.append(['quota', rng.choice(['tmp', 'cache']), rng.choice([0, 10, 100, 700, 3000, 20000])])
        nprocs = rng.choice([1, 2, 2, 3, 3])
        procs = []
        for _ in range(nprocs):
            nops = rng.choice([1, 1, 2, 3])
            ops = []
            for _ in range(nops):
                key = focus if rng.random() < 0.75 else rng.choice(SRC_KEYS)
                r = rng.random()
                # every write goes through the real call site (_parse_include = load, else parse
                # and store); a bare store() by the harness would not follow whatever protocol
                # the call site and the store share (e.g. which time stamp an entry gets)
                if r < 0.75:
                    ops.append(['parse_include', key])
                elif r < 0.93:
                    ops.append(['load', key])
                else:
                    ops.append(['newstore'])
            if rng.random() < 0.08:
                ops.insert(0, ['nocache'])       # this process runs with GI_SCANNER_DISABLE_CACHE set
            if rng.random() < 0.2:
                # this scanner searches directory b before directory a (another project's
                # --add-include-path): Dep's include of Base must resolve by ITS search path,
                # whatever an earlier process with another search path left in the cache
                ops.insert(0, ['incpath', 'ba'])
            if rng.random() < 0.25:
                # this scanner was started inside its first search directory and names it
                # relatively (--add-include-path=.), as build systems that run in the build
                # directory do: the files it means are those of ITS directory, whatever another
                # scanner, started elsewhere, called './Dep-1.0.gir'
                ops.insert(0, ['rel'])
            procs.append(ops)
        ep = {'env': env, 'procs': procs}
        if cfg['family'] == 'midmod':
            # source modifications that happen WHILE scanner processes run (between two of
            # their system calls), e.g. a dependency being re-installed during a build
            # (always by atomic replacement: an in-place rewrite under a reader tears the read
            # itself, cache or no cache, which is not something C18 can promise anything about)
            ep['mid'] = [['rewrite', focus if rng.random() < 0.8 else rng.choice(SRC_KEYS), 'replace']
                         for _ in range(rng.choice([1, 1, 2]))]
            if rng.random() < 0.3:
                # ... and the scanner itself being upgraded while scanners of the old version run:
                # they finish their stores after the new version has purged the cache
                ep['mid'].insert(rng.randrange(len(ep['mid']) + 1), ['upgrade', 'mtime', [0]])
        epochs.append(ep)
    return epochs


# ---------------------------------------------------------------------------------------
# Deciders
# ---------------------------------------------------------------------------------------

def classify(path, cachedir):
    if path is None:
        return '-'
    if cachedir and path.startswith(cachedir + '/'):
        return 'stamp' if path.endswith('/' + STAMP) else 'entry'
    if path == cachedir:
        return 'cachedir'
    if path.startswith(TMP + '/'):
        return 'tmp'
    if path.startswith(SIM_ROOT + '/gir/'):
        return 'src'
    if path.startswith(LIBDIR) or path == ARGV0:
        return 'lib'
    return 'other'


class RandomDecider(object):
    def __init__(self, rng, cfg, sim):
        self.rng = rng
        self.cfg = cfg
        self.sim = sim
        self.cur = None
        self.kills = 0
        self.step = 0
        self.preempt = set(rng.sample(range(1, 260), cfg['pct_k'])) if cfg['strategy'] == 'pct' else set()
        self.victim = None
        self.victim_head = rng.randint(0, 40)

    def new_epoch(self, ei=0, base=0):
        self.cur = None
        self.victim = None
        self.victim_head = self.rng.randint(0, 40)

    def decide(self, world, runnable):
        rng, cfg = self.rng, self.cfg
        slots = [p.slot for p in runnable]
        st = cfg['strategy']
        self.step += 1
        if self.sim.pending_mid:
            # bias: right after a process has read the source (its parse is now of the old
            # version) and before its store; otherwise a small chance at every step
            hot = any(p.pending[0] in ('open', 'stat', 'write', 'rename') and classify(p.pending[1], self.sim.cachedir) in ('tmp', 'entry')
                      for p in runnable)
            if rng.random() < (0.25 if hot else 0.02):
                return -1, Directive('env')
        if st == 'uniform' or len(slots) == 1:
            slot = rng.choice(slots)
        elif st == 'pct':
            if self.cur in slots and self.step not in self.preempt:
                slot = self.cur
            else:
                slot = rng.choice([s for s in slots if s != self.cur] or slots)
        elif st == 'rr':
            later = [s for s in slots if self.cur is not None and s > self.cur]
            slot = later[0] if later else slots[0]
        else:   # starve: run a victim for a while, then only the others until they finish
            if self.victim is None or self.victim not in slots:
                self.victim = rng.choice(slots)
            if self.victim_head > 0:
                self.victim_head -= 1
                slot = self.victim
            else:
                others = [s for s in slots if s != self.victim]
                slot = rng.choice(others) if others else self.victim
        self.cur = slot
        p = world.procs[slot]
        call, path, size = p.pending
        if cfg['family'] == 'sched' or call == 'start':
            return slot, RUN
        cls = classify(path, self.sim.cachedir)
        hot = (call in ('write', 'rename', 'utime', 'chmod', 'unlink') and cls in ('entry', 'tmp', 'stamp')) \
            or (call == 'read' and cls == 'tmp') or (call == 'listdir' and cls == 'cachedir')
        if self.kills < cfg['max_kills']:
            if call == 'write' and size and size > 1 and rng.random() < cfg['p_killmid'] * (3 if hot else 1):
                self.kills += 1
                return slot, Directive('killmid', rng.randint(1, size - 1))
            if rng.random() < cfg['p_kill'] * (5 if hot else 1):
                self.kills += 1
                return slot, Directive('kill')
        if call in ('read', 'write') and size and size > 1 and rng.random() < cfg['p_short']:
            return slot, Directive('short', rng.randint(1, size - 1))
        if cfg['p_err'] and rng.random() < cfg['p_err']:
            if 'EACCES' in cfg['errs'] and call == 'makedirs' and cls in ('cachedir', 'other'):
                return slot, Directive('errno', errno.EACCES)
            if 'EACCES' in cfg['errs'] and call in ('unlink', 'rename', 'open') and cls in ('entry', 'stamp', 'tmp'):
                return slot, Directive('errno', errno.EACCES)
            if 'EIO' in cfg['errs'] and (call == 'read' or (call == 'unlink' and cls in ('entry', 'tmp'))):
                return slot, Directive('errno', errno.EIO)
        return slot, RUN


class ReplayDecider(object):
    """Feeds recorded decisions back, epoch by epoch; slots are epoch-local process indices.
    A decision whose process is not runnable (the workload was shrunk, or the code changed) is
    skipped; when the epoch's list is exhausted the previous process continues, else the lowest
    runnable one, without faults.  Both cases are counted as `inapplicable`."""

    def __init__(self, decisions):
        self.epochs = [list(e) for e in decisions]
        self.cur_list = []
        self.i = 0
        self.base = 0
        self.cur = None
        self.inapplicable = 0

    def new_epoch(self, ei=0, base=0):
        self.cur_list = self.epochs[ei] if ei < len(self.epochs) else []
        self.i = 0
        self.base = base
        self.cur = None

    def decide(self, world, runnable):
        slots = [p.slot for p in runnable]
        while self.i < len(self.cur_list):
            d = self.cur_list[self.i]
            self.i += 1
            if d[0] == 'env':
                if world.env_hook is not None and world.env_pending():
                    return -1, Directive('env')
                self.inapplicable += 1
                continue
            slot = d[1] + self.base
            if slot not in slots:
                self.inapplicable += 1
                continue
            kind = d[0]
            arg = d[2] if len(d) > 2 else None
            call, path, size = world.procs[slot].pending
            ok = True
            if kind in ('short', 'killmid'):
                ok = call in ('read', 'write') and bool(size) and size > 1
                if ok:
                    arg = max(1, min(arg, size - 1))
            if kind == 'errno' and call == 'start':
                ok = False
            self.cur = slot
            if not ok:
                self.inapplicable += 1
                return slot, RUN
            return slot, (RUN if kind == 'run' else Directive(kind, arg))
        self.inapplicable += 1
        slot = self.cur if self.cur in slots else slots[0]
        self.cur = slot
        return slot, RUN


# ---------------------------------------------------------------------------------------
# The simulation of one run
# ---------------------------------------------------------------------------------------

class Violation(object):
    def __init__(self, clause, signature, detail):
        self.clause = clause
        self.signature = signature
        self.detail = detail

    def to_json(self):
        return {'clause': self.clause, 'signature': self.signature, 'detail': self.detail}


class CacheSim(object):
    def __init__(self, cfg, workload, decider_factory, thorough=False):
        self.cfg = cfg
        self.workload = workload
        self.thorough = thorough
        gran = {'distinct': 1}.get(cfg.get('clock', 'distinct'), cfg.get('clock_gran_ns', 1))
        self.fs = SimFS(clock_gran_ns=gran)
        self.world = World(self.fs, {'stdio_buffer': cfg['stdio_buffer'], 'copy_chunk': cfg['copy_chunk']})
        self._clock_rng = random.Random(cfg.get('clock_seed', 12345))
        self.world.clock_deltas = self._delta
        self.world.on_event = self._on_event
        self.cachedir = (XDG if cfg['xdg'] else HOME + '/.cache') + '/g-ir-scanner'
        self.decider = decider_factory(self)
        self.main_decider = self.decider
        self.violations = []
        self.harness_errors = []
        self.ops = []                  # per-op records
        self.scanner_version = 1
        self.cur_version = {}
        self.version_digest = {}
        self.next_version = {k: 1 for k in SRC_KEYS}
        self.probes = {}
        self.states = set()
        self.epoch_index = -1
        self.midop_switches = 0
        self._last_slot = None
        self.libfiles = list(LIBFILES)
        self.epoch_decisions = []
        self.eacces_on_unlink = False
        self.learnt_entries = {}       # source key -> cache paths the code used for it, oldest first
        self.stamp_seen = {}           # process slot -> scanner version that wrote the stamp it last opened
        self.pending_mid = []
        self.version_log = {}          # key -> [(seq from which it is current, version), ...]
        self.world.env_hook = self._fire_mid
        self.world.env_pending = lambda: bool(self.pending_mid)

    # -- clock: every mutating call gets its own, later, timestamp ----------------------
    def _delta(self):
        return self._clock_rng.choice((1_000, 7_000, 130_000, 2_500_000, 40_000_000))

    def probe(self, name, n=1):
        self.probes[name] = self.probes.get(name, 0) + n

    # -- shadow bookkeeping, driven by the event log ------------------------------------
    def _on_event(self, ev):
        seq, now, slot, call, path, ino, res, size = ev
        if res == 'EENOSPC':
            self.probe('enospc_hit:' + call)
        if call == 'unlink' and res == 'EEACCES!':
            self.eacces_on_unlink = True       # "permission denied" on removal is ignored by design
        if slot >= 0:
            if self._last_slot is not None and self._last_slot != slot:
                prev = self.world.procs[self._last_slot]
                if prev.state != 'done':
                    self.midop_switches += 1
            self._last_slot = slot
        if slot >= 0 and call == 'open' and res == 'ro' and path and path.endswith('/' + STAMP):
            # which scanner version wrote the stamp this process is reading now (None: damaged)
            st = self.fs.inodes.get(ino)
            self.stamp_seen[slot] = (st.tag.get('sv') if st is not None and not st.tag.get('damaged') else None)
        if slot >= 0 and call == 'stat' and path == LIBDIR + '/' + self.libfiles[0]:
            # the one file a mid-run upgrade touches: what this process saw of it decides which
            # version hash it computes, i.e. which scanner version it takes itself to be
            self.world.procs[slot].version = self.scanner_version
        if ino is None:
            return
        node = self.fs.inodes.get(ino)
        if node is None:
            return
        # provenance: the scanner version of the process that writes (the version it saw when it
        # looked at its own installation), not whatever is installed at the moment of the write
        wsv = self.world.procs[slot].version if slot >= 0 else self.scanner_version
        if call == 'open' and res in ('creat', 'trunc'):
            node.tag.pop('damaged', None)
            node.tag['sv'] = wsv
            node.tag['writers'] = node.tag.get('writers', ()) + (slot,)
            node.tag['wseq'] = seq
        elif call in ('write', 'ftruncate', 'truncate'):
            node.tag['sv'] = wsv
            node.tag['wseq'] = seq
        if call in ('write', 'ftruncate', 'truncate') or (call == 'open' and res in ('creat', 'trunc')):
            node.tag['wns'] = self.fs.now_ns          # when its data last changed (not its mtime)

    # -- environment ------------------------------------------------------------------
    def setup(self):
        fs = self.fs
        if not self.cfg['tmp_same_device']:
            fs.mounts[TMP] = 2
        for d in (SIM_ROOT + '/cwd', HOME, TMP, LIBDIR, SIM_ROOT + '/bin', GIRA, GIRB,
                  SIM_ROOT + '/share/gir-1.0', SIM_ROOT + '/xdgdata'):
            fs.makedirs(d, exist_ok=True)
        if self.cfg['xdg']:
            fs.makedirs(XDG, exist_ok=True)
        for name in self.libfiles:
            fs.tick(1_000_000)
            fs.env_write_file(LIBDIR + '/' + name, b'# ' + name.encode())
        fs.tick(1_000_000)
        fs.env_write_file(ARGV0, b'#!python')
        for key in SRC_KEYS:
            self._rewrite(key, 'inplace')
        self._lib_states = {self._lib_state()}

    def _rewrite(self, key, mode):
        k = self.next_version[key]
        self.next_version[key] = k + 1
        data = gir_text(key, k, self.cfg['ntypes'], self.cfg['include_base'])
        self.fs.tick(self._delta())
        prev = self.fs.lookup(SOURCES[key])
        prev_mtime = prev.mtime_ns if prev is not None else 0
        node = self.fs.env_write_file(SOURCES[key], data, replace=(mode in ('replace', 'preserved')))
        if mode == 'preserved':
            # installed by a tool that preserves time stamps (dpkg, rsync -t, cp -p): the new file
            # carries an mtime from the past -- but one that is later than the moment the data of
            # the current cache entry was written, so the entry is older than its source and an
            # mtime comparison can and must still reject it
            # ... in whichever cache directory processes have been using (XDG_CACHE_HOME or the
            # ~/.cache fallback), and later than the previous version of the source itself
            floor = prev_mtime
            # (entries under the absolute path, and under the relative spelling that scanners
            # started inside the directory use)
            paths = list(self.learnt_entries.get(key, []))
            for spelled in (SOURCES[key], './' + SOURCES[key].rpartition('/')[2]):
                name = hashlib.sha1(spelled.encode('utf-8')).hexdigest()
                paths.extend(d + '/' + name for d in self._candidate_cachedirs())
            for path in paths:
                entry = self.fs.lookup(path)
                if entry is not None and 'wns' in entry.tag:
                    floor = max(floor, entry.tag['wns'])
            t2 = min(self.fs.now_ns, floor + self._clock_rng.choice((1_000, 50_000, 3_000_000)))
            if t2 > floor:
                node.mtime_ns = t2
        node.tag['src'] = (key, k)
        self.cur_version[key] = k
        self.version_log.setdefault(key, []).append((self.world.seq + 1, k))
        self.version_digest[(key, k)] = reference_digest(data)
        self.world.record(-1, 'ENV:rewrite:' + mode, SOURCES[key], node.ino, 'v%d' % k, len(data))

    def _lib_state(self):
        d = self.fs.lookup(LIBDIR)
        return tuple((n, self.fs.inodes[i].mtime_ns) for n, i in d.entries.items() if n.endswith('.py')) + \
            (self.fs.lookup(ARGV0).mtime_ns,)

    def _fire_mid(self):
        ev = self.pending_mid.pop(0)
        self.probe('scanner_upgraded_while_processes_run' if ev[0] == 'upgrade' else 'source_modified_while_processes_run')
        self.apply_env(ev)

    def versions_current_during(self, key, begin_seq, end_seq):
        log = self.version_log[key]
        out = []
        for i, (seq, k) in enumerate(log):
            nxt = log[i + 1][0] if i + 1 < len(log) else None
            if seq <= end_seq and (nxt is None or nxt > begin_seq):
                out.append(k)
        return out

    def entry_path(self, key):
        """Where the code keeps the entry of a source: learnt from the code itself (the first cache
        path, other than stamp and temporary files, that a process touched during an operation on
        that source), so that no naming scheme is assumed; until one has been seen, the scheme of
        the tree this harness was first written against."""
        for path in reversed(self.learnt_entries.get(key, [])):
            if self.fs.lookup(path) is not None:
                return path
        if self.learnt_entries.get(key):
            return self.learnt_entries[key][-1]
        return self.cachedir + '/' + hashlib.sha1(SOURCES[key].encode('utf-8')).hexdigest()

    def op_entry_path(self, p, rec, key):
        """The entry path process p used for `key` in the operation rec (learnt from its own system
        calls), or the last one learnt for that source."""
        dirs = self._candidate_cachedirs()
        for ev in self._events_of(rec):
            if ev[2] == p.slot and ev[4] and ev[3] in ('open', 'stat', 'fstat', 'rename', 'unlink'):
                d, _, name = ev[4].rpartition('/')
                if d in dirs and name != STAMP and not name.startswith('g-ir-scanner-cache-'):
                    known = self.learnt_entries.setdefault(key, [])
                    if ev[4] in known:
                        known.remove(ev[4])
                    known.append(ev[4])
                    return ev[4]
        return self.entry_path(key)

    def apply_env(self, ev):
        fs = self.fs
        kind = ev[0]
        fs.tick(self._delta())
        if kind == 'rewrite':
            self._rewrite(ev[1], ev[2])
        elif kind == 'touch':
            node = fs.lookup(SOURCES[ev[1]])
            node.mtime_ns = fs.stamp()
            self.world.record(-1, 'ENV:touch', SOURCES[ev[1]], node.ino)
        elif kind == 'upgrade':
            how, files = ev[1], ev[2]
            self.scanner_version += 1
            if how == 'add':
                name = 'new%d.py' % self.scanner_version
                self.libfiles.append(name)
                fs.env_write_file(LIBDIR + '/' + name, b'# new')
            elif how == 'remove' and len(self.libfiles) > 2:
                name = self.libfiles.pop()
                fs.unlink(LIBDIR + '/' + name)
            else:
                targets = [LIBDIR + '/' + self.libfiles[i] if i < len(self.libfiles) else ARGV0
                           for i in files]
                for t in targets:
                    fs.tick(self._delta())
                    node = fs.lookup(t)
                    if node is not None:
                        if how == 'older':
                            # a module replaced by a build that is older than what was installed
                            # (downgrade, or a package whose files keep their build-time stamps)
                            node.mtime_ns = node.mtime_ns - 1 - (self.world.seq % 7) * 1_000_000
                        else:
                            node.mtime_ns = fs.stamp()
            # an upgrade must be a real change: if add/remove happened to restore an earlier
            # state of the scanner installation, bump argv[0] as well
            state = self._lib_state()
            if state in self._lib_states:
                fs.tick(self._delta())
                fs.lookup(ARGV0).mtime_ns = fs.stamp()
                state = self._lib_state()
            self._lib_states.add(state)
            self.world.record(-1, 'ENV:upgrade:' + how, None, None, 'sv%d' % self.scanner_version)
        elif kind == 'damage':
            path = self.entry_path(ev[1])
            node = fs.lookup(path)
            if node is None:
                self.world.record(-1, 'ENV:damage:absent', path)
                return
            how, frac = ev[2], ev[3]
            n = len(node.data)
            if how == 'truncate':
                del node.data[int(n * frac):]
            elif how == 'empty':
                del node.data[:]
            elif how == 'zeros':
                node.data[:] = b'\0' * max(1, int(n * frac))
            elif how == 'ff':
                node.data[:] = b'\xff' * max(1, int(n * frac))
            elif how == 'exotic':
                # byte strings on which the unpickler fails with something other than
                # UnpicklingError/EOFError (a class that moved, a bad literal, bad UTF-8, ...)
                node.data[:] = EXOTIC_GARBAGE[int(frac * len(EXOTIC_GARBAGE)) % len(EXOTIC_GARBAGE)]
            elif how == 'text':
                node.data[:] = (b'this is not a pickle\n' * 50)[:max(1, int(n * frac))]
            node.mtime_ns = fs.stamp()
            self.probe('env_entry_damaged:' + how)
            node.tag['damaged'] = True
            node.tag['sv'] = self.scanner_version
            self.world.record(-1, 'ENV:damage:' + how, path, node.ino, 'len=%d' % len(node.data))
        elif kind == 'del_stamp':
            try:
                fs.unlink(self.cachedir + '/' + STAMP)
                self.world.record(-1, 'ENV:del_stamp', None, None, 'ok')
            except OSError:
                self.world.record(-1, 'ENV:del_stamp', None, None, 'absent')
        elif kind in ('empty_stamp', 'garble_stamp'):
            # what a scanner killed while (re)writing the stamp in place, or a full disk, leaves behind
            done = 'absent'
            for d in self._candidate_cachedirs():
                node = fs.lookup(d + '/' + STAMP)
                if node is not None:
                    node.data[:] = b'' if kind == 'empty_stamp' else bytes(node.data[:7]) + b'???'
                    node.mtime_ns = fs.stamp()
                    node.tag['damaged'] = True
                    done = 'ok'
            self.world.record(-1, 'ENV:' + kind, None, None, done)
        elif kind == 'stray_tmp':
            node = fs.env_write_file(TMP + '/g-ir-scanner-cache-stray%d' % self.world.seq, b'\x80\x04partial')
            node.tag['sv'] = self.scanner_version
            if fs.lookup(self.cachedir) is not None:
                node2 = fs.env_write_file(self.cachedir + '/stray%d' % self.world.seq, b'junk')
                node2.tag['sv'] = self.scanner_version
            self.world.record(-1, 'ENV:stray_tmp')
        elif kind == 'quota':
            dev = 2 if (ev[1] == 'tmp' and not self.cfg['tmp_same_device']) else 1
            fs.dev_free[dev] = ev[2]
            self.world.record(-1, 'ENV:quota', None, None, 'dev%d=%d' % (dev, ev[2]))

    # -- operations executed inside simulated processes ---------------------------------
    def _environ(self):
        env = {'HOME': HOME, 'TMPDIR': TMP, 'XDG_DATA_HOME': SIM_ROOT + '/xdgdata',
               'XDG_DATA_DIRS': SIM_ROOT + '/share'}
        if self.cfg['xdg']:
            env['XDG_CACHE_HOME'] = XDG
        return env

    def _candidate_cachedirs(self):
        return [XDG + '/g-ir-scanner', HOME + '/.cache/g-ir-scanner']

    def _cachedir_snapshot(self, path=None):
        if path is None:
            return {d: self._cachedir_snapshot(d) for d in self._candidate_cachedirs()}
        node = self.fs.lookup(path)
        return dict(node.entries) if node is not None and node.kind == 'd' else {}

    def op_begin(self, p, op):
        rec = {'slot': p.slot, 'epoch': self.epoch_index, 'op': op, 'begin_seq': self.world.seq,
               'begin_idx': len(self.world.log), 'snap': None}
        if op[0] in ('construct', 'newstore'):
            rec['snap'] = self._cachedir_snapshot()
            self.stamp_seen.pop(p.slot, None)      # set when (if) this constructor opens a stamp
        self.world.record(p.slot, 'OP>' + op[0], SOURCES.get(op[1]) if len(op) > 1 else None)
        self.ops.append(rec)
        return rec

    def op_end(self, p, rec, value=None, raised=None):
        rec['end_seq'] = self.world.seq
        rec['end_idx'] = len(self.world.log)
        op = rec['op']
        if raised is not None:
            rec['result'] = 'raised:' + type(raised).__name__
            self.world.record(p.slot, 'OP<' + op[0], None, None, rec['result'])
            self._check_raise(p, rec, raised)
        else:
            self._check_value(p, rec, value)
            self.world.record(p.slot, 'OP<' + op[0], None, None, rec.get('result', 'ok'))
        self._abstract_state()

    def violate(self, clause, signature, detail):
        self.violations.append(Violation(clause, signature, detail))

    def _events_of(self, rec):
        return self.world.log[rec['begin_idx']:rec.get('end_idx', len(self.world.log))]

    def _check_raise(self, p, rec, exc):
        op = rec['op']
        fam = self.cfg['family']
        last = None
        for ev in reversed(self._events_of(rec)):
            if ev[2] == p.slot and not ev[3].startswith('OP'):
                last = ev
                break
        lastcall = '%s:%s:%s' % (last[3], classify(last[4], self.cachedir), last[6]) if last else '-'
        tb = traceback.extract_tb(exc.__traceback__)
        site = '-'
        for fr in reversed(tb):
            if '/giscanner/' in fr.filename:
                site = '%s' % (fr.name,)
                break
        sig = 'O2@%s:%s:%s:%s' % (op[0], site, type(exc).__name__, lastcall)
        if isinstance(exc, OSError) and not getattr(exc, '_sim', False):
            self.harness_errors.append('seam escape: an operation raised an OSError that the simulator '
                                       'did not produce: %r at %s' % (exc, site))
            return
        if fam == 'oserr':
            injected = {getattr(errno, n) for n in self.cfg['errs']}
            if isinstance(exc, OSError) and getattr(exc, '_sim', False) and exc.errno in injected:
                # one thing C18 does promise under OS errors: "an unreadable ... entry is discarded
                # instead of raising" -- a load whose open or read of *its own cache entry* fails
                # must answer "nothing", not die
                if op[0] in ('load', 'parse_include') and last is not None and last[3] in ('open', 'read') \
                        and last[4] == self.op_entry_path(p, rec, op[1]):
                    self.violate('O2', 'O2@%s:unreadable-entry-raised:%s:%s' % (op[0], last[3], errno.errorcode.get(exc.errno)), {
                        'op': op, 'slot': p.slot, 'epoch': rec['epoch'], 'exception': repr(exc), 'site': site,
                        'last_call': lastcall})
                    return
                self.probe('oserr_op_failed_with_injected_errno')
                return
            # a secondary effect of an injected fault on *another* process is still an OS-fault
            # family run; only exceptions that are not OSErrors at all are flagged there
            if isinstance(exc, OSError) and getattr(exc, '_sim', False):
                self.probe('oserr_op_failed_other_errno')
                return
        self.violate('O2', sig, {
            'op': op, 'slot': p.slot, 'epoch': rec['epoch'], 'exception': repr(exc),
            'site': site, 'last_call': lastcall,
            'traceback': [('giscanner/' + f.filename.split('/giscanner/')[-1], f.lineno, f.name, f.line)
                          for f in tb if '/giscanner/' in f.filename][-6:]})

    def _check_value(self, p, rec, value):
        op = rec['op']
        kind = op[0]
        if kind in ('load', 'parse_include'):
            key = op[1]
            cur = self.cur_version[key]
            allowed = self.versions_current_during(key, rec['begin_seq'], rec['end_seq'])
            wants = [self.version_digest[(key, k)] for k in allowed]
            evs = self._events_of(rec)
            entry = self.op_entry_path(p, rec, key)
            rec['entry'] = entry
            opened = [ev for ev in evs if ev[2] == p.slot and ev[3] == 'open' and ev[4] == entry and ev[6] == 'ro']
            if value is None:
                rec['result'] = 'none'
                if kind == 'parse_include':
                    self.violate('O1', 'O1@parse_include:returned-none', {'op': op})
                self._check_discard(p, rec, key, opened, evs)
                return
            try:
                got = parser_digest(value)
            except Exception as e:     # a torn object can make the writer fail
                got = 'undigestable:%r' % (e,)
            srcread = any(ev[2] == p.slot and ev[3] == 'readsrc' and ev[4] == SOURCES[key] for ev in evs)
            rec['result'] = 'fresh' if srcread else 'hit'
            self.probe('load_hit' if not srcread else 'load_miss_parsed')
            if opened:
                # probe: the path was re-pointed between this load's open and its return
                ino = opened[0][5]
                n = self.fs.lookup(entry)
                if n is None or n.ino != ino:
                    self.probe('load_opened_then_replaced')
            if got not in wants:
                known = [k for (kk, k), d in self.version_digest.items() if kk == key and d == got]
                prov = None
                how = rec['result']
                if opened:
                    prov = self.fs.inodes[opened[0][5]].tag.get('sv')
                    if rec['result'] == 'hit':
                        how = 'hit:' + self._explain_stale_hit(p, rec, opened[0], evs)
                self.violate('O1', 'O1@%s:%s' % (kind, how), {
                    'op': op, 'slot': p.slot, 'epoch': rec['epoch'],
                    'returned_version': known[0] if known else 'no version of this file (%s)' % got,
                    'current_version': cur, 'versions_current_during_the_load': allowed,
                    'from': rec['result'], 'entry_writer_scanner_version': prov})
            elif rec['result'] == 'hit' and opened:
                # O3 (reader side): data written under another scanner version must not be served
                node = self.fs.inodes[opened[0][5]]
                if node.tag.get('sv') != p.version and not self.eacces_on_unlink:
                    self.violate('O3', 'O3@%s:served-entry-of-other-scanner-version' % kind, {
                        'op': op, 'slot': p.slot, 'entry_scanner_version': node.tag.get('sv'),
                        'process_scanner_version': p.version})
            if kind == 'parse_include':
                self._check_registry(p, rec, value)
            if rec['result'] == 'fresh':
                self._check_discard(p, rec, key, opened, evs)
        elif kind in ('construct', 'newstore'):
            rec['result'] = 'ok'
            # under injected OS errors the purge is still owed, except that "permission denied" on
            # removing a file is ignored by design (then entries may survive, here and later)
            if not self.eacces_on_unlink and 'GI_SCANNER_DISABLE_CACHE' not in p.environ:
                # the directory this process really uses (get_user_cache_dir falls back to
                # ~/.cache when XDG_CACHE_HOME cannot be created)
                used = [ev[4] for ev in self._events_of(rec) if ev[2] == p.slot and ev[3] == 'makedirs'
                        and ev[6] == 'ok' and ev[4] in self._candidate_cachedirs()]
                # no directory could be created: this process runs without a cache
                used = used[0] if used else None
                now = self._cachedir_snapshot(used) if used else {}
                left = []
                if used and self.stamp_seen.get(p.slot, 'none') == p.version:
                    # the stamp it found was written by its own version: no purge is owed. Entries
                    # that a scanner of another version, still running, stored after that purge
                    # may lie around; what matters is that they are never served (reader side)
                    used = None
                    self.probe('construct_found_own_stamp')
                for name, ino in (rec['snap'].get(used, {}) if used else {}).items():
                    if name == STAMP:
                        continue
                    node = self.fs.inodes[ino]
                    if node.tag.get('sv') != p.version and now.get(name) == ino:
                        left.append((name[:8], node.tag.get('sv')))
                if left:
                    self.violate('O3', 'O3@%s:entries-of-other-scanner-version-survive' % kind, {
                        'op': op, 'slot': p.slot, 'epoch': rec['epoch'], 'survivors': left,
                        'process_scanner_version': p.version})
                if any(ev[2] == p.slot and ev[3] == 'unlink' for ev in self._events_of(rec)):
                    self.probe('purge_performed')
        else:
            rec['result'] = 'ok'

    def _explain_stale_hit(self, p, rec, opened_ev, evs):
        """Names the window through which a stale entry was served, for the violation signature."""
        ino = opened_ev[5]
        entry = opened_ev[4]
        # in-place (cross-device) copies of this inode by other processes: [open(creat|trunc), utime]
        check = [ev for ev in evs if ev[2] == p.slot and ev[3] in ('fstat', 'stat') and ev[5] == ino]
        if check:
            c = check[0][0]
            copies = {}
            for ev in self.world.log:
                if ev[5] == ino and ev[2] != p.slot and ev[2] >= 0 and ev[4] == entry:
                    if ev[3] == 'open' and ev[6] in ('creat', 'trunc'):
                        copies.setdefault(ev[2], [ev[0], None])
                    elif ev[3] == 'utime' and ev[2] in copies and copies[ev[2]][1] is None:
                        copies[ev[2]][1] = ev[0]
            for w, (a, u) in copies.items():
                if a < c and (u is None or c < u):
                    # written in place by a cross-device move; validated while it still carried
                    # the time of the copy instead of the time stamp its writer was about to give it
                    return 'entry-validated-between-cross-device-copy-and-copystat'
        renamed = [ev for ev in self.world.log if ev[3] == 'rename' and ev[4] == entry and ev[0] > opened_ev[0]
                   and ev[0] < rec['end_seq']]
        if renamed:
            return 'entry-replaced-during-load'
        return 'entry-looked-fresh'

    def _check_registry(self, p, rec, parser):
        """O6: what _parse_include registers with the transformer is the cache-less parse."""
        T = p.transformer
        ns = parser.get_namespace()
        reg = T._parsed_includes.get(ns.name)
        if reg is not ns:
            self.violate('O6', 'O6@parse_include:registry-holds-other-object', {'op': rec['op']})
        for inc in ns.includes:
            if inc.name not in T._parsed_includes:
                self.violate('O6', 'O6@parse_include:include-not-registered', {'op': rec['op'], 'include': str(inc)})
            elif inc.name == 'Base':
                base = T._parsed_includes['Base']
                holder = types.SimpleNamespace(get_namespace=lambda: base)
                got = parser_digest(holder)
                # Base is parsed once per Transformer; it must equal some version current
                # since this process started (sources only change at quiescent points)
                first_seq = min(r['begin_seq'] for r in self.ops if r['slot'] == p.slot)
                bkey = 'BASEB' if getattr(p, 'incpath', [GIRA])[0] == GIRB else 'BASE'
                # a Base file this process loaded by name earlier stays registered (first wins)
                keys = {bkey} | {r['op'][1] for r in self.ops if r['slot'] == p.slot and r is not rec
                                 and r['op'][0] == 'parse_include' and r['op'][1] in ('BASE', 'BASEB')}
                allowed = [self.version_digest[(k2, k)] for k2 in keys
                           for k in self.versions_current_during(k2, first_seq, rec['end_seq'])]
                if got not in allowed:
                    self.violate('O1', 'O1@parse_include:nested-include', {
                        'op': rec['op'], 'include': 'Base', 'expected_file': SOURCES[bkey],
                        'current_version': self.cur_version[bkey]})

    def _check_discard(self, p, rec, key, opened, evs):
        """O4: a broken entry that is fresh by the code's own criterion, and that nobody else
        touched during this load, is gone afterwards."""
        if not opened or self.cfg['family'] == 'oserr':
            return
        ino = opened[0][5]
        node = self.fs.inodes[ino]
        entry = rec.get('entry') or self.entry_path(key)
        src = self.fs.lookup(SOURCES[key])
        if src is None:
            return
        for ev in evs:
            if ev[0] > opened[0][0] and ev[2] != p.slot and ev[2] >= 0 and (ev[4] == entry or ev[5] == ino):
                return                       # someone else touched the path or the inode
        if pickle_ok(node.data):
            return                           # complete pickle: it was stale or raced, not broken
        if node.mtime_ns <= src.mtime_ns:
            # older than its source: ignoring it is right.  Exactly as old: C18 leaves open whether
            # that counts as fresh (>= and > both never use an *older* entry), so nothing is owed
            self.probe('broken_but_stale_ignored')
            return
        self.probe('broken_fresh_entry_loaded')
        cur = self.fs.lookup(entry)
        if cur is not None and cur.ino == ino:
            self.violate('O4', 'O4@load:broken-fresh-entry-left-in-place', {
                'op': rec['op'], 'slot': p.slot, 'entry_len': len(node.data),
                'damaged_by_env': bool(node.tag.get('damaged'))})

    def _abstract_state(self):
        st = []
        for key in SRC_KEYS:
            node = self.fs.lookup(self.entry_path(key))
            src = self.fs.lookup(SOURCES[key])
            if node is None:
                st.append('absent')
                continue
            ok = 'complete' if pickle_ok(node.data) else 'broken'
            st.append(ok + ('-fresh' if node.mtime_ns >= src.mtime_ns else '-stale'))
        stamp = self.fs.lookup(self.cachedir + '/' + STAMP)
        st.append('stamp' if stamp is not None else 'nostamp')
        tmpd = self.fs.lookup(TMP)
        st.append(min(3, len(tmpd.entries)))
        self.states.add(tuple(st))

    # -- process body -------------------------------------------------------------------
    def make_body(self, ops):
        sim = self

        def body(p):
            from giscanner import ast as gast
            from giscanner import transformer as gtrans
            from giscanner.girparser import GIRParser
            ops_ = list(ops)
            p.incpath = [GIRA]
            rel = False
            while ops_ and ops_[0][0] in ('nocache', 'incpath', 'rel'):
                if ops_[0][0] == 'nocache':
                    p.environ['GI_SCANNER_DISABLE_CACHE'] = '1'
                elif ops_[0][0] == 'rel':
                    rel = True
                else:
                    p.incpath = [GIRB, GIRA]
                ops_.pop(0)
            spelled_incpath = list(p.incpath)
            if rel:
                p.cwd = p.incpath[0]
                spelled_incpath[0] = '.'
                sim.probe('process_with_relative_search_path')

            def spell(key):
                # the path as this scanner's own search (os.path.join(dir, name)) would spell it
                path = SOURCES[key]
                d, _, name = path.rpartition('/')
                return './' + name if (rel and d == p.cwd) else path
            rec = sim.op_begin(p, ['construct'])
            try:
                T = gtrans.Transformer(gast.Namespace('Main', '1.0'))
                T.set_include_paths(spelled_incpath)
            except (Killed, SeamGap):
                raise
            except BaseException as e:
                sim.op_end(p, rec, raised=e)
                return 'died'
            p.transformer = T
            sim.op_end(p, rec, value=T)
            for op in ops_:
                rec = sim.op_begin(p, op)
                try:
                    kind = op[0]
                    if kind == 'parse_include':
                        val = T._parse_include(spell(op[1]))
                    elif kind == 'load':
                        val = T._cachestore.load(spell(op[1])) if T._cachestore is not None else None
                    elif kind == 'newstore':
                        val = gtrans.CacheStore()
                        T._cachestore = val
                    else:
                        raise HarnessError('unknown op %r' % (op,))
                except (Killed, SeamGap):
                    raise
                except BaseException as e:
                    sim.op_end(p, rec, raised=e)
                    return 'died'       # an uncaught exception ends a real scanner process
                sim.op_end(p, rec, value=val)
            return 'ok'
        return body

    # -- the run ------------------------------------------------------------------------
    def bind_seam(self):
        import giscanner.cachestore as m_cs
        import giscanner.utils as m_ut
        import giscanner.girparser as m_gp
        import giscanner.transformer as m_tr
        seam = Seam(self.world, ARGV0)
        world = self.world
        osf = seam.os

        def sim_parse(source, parser=None):
            # xml.etree.ElementTree.parse(path): open + read to EOF + close, then the real
            # expat parser runs on the bytes
            if not isinstance(source, str):
                return ET.parse(source, parser)
            chunks = []
            with seam.open(source, 'rb') as f:
                while True:
                    b = f.read(65536)
                    if not b:
                        break
                    chunks.append(b)
            world.record(current_proc().slot if current_proc() else -1, 'readsrc', osf._w.fs.norm(source))
            return ET.parse(io.BytesIO(b''.join(chunks)), parser)
        fake_pkg = types.SimpleNamespace(__file__=LIBDIR + '/__init__.py')
        seam.bind(m_cs, os=osf, open=seam.open, shutil=seam.shutil, tempfile=seam.tempfile,
                  glob=seam.glob, sys=seam.sys, giscanner=fake_pkg)
        seam.bind(m_ut, os=osf, shutil=seam.shutil)
        seam.bind(m_gp, os=osf, parse=sim_parse)
        seam.bind(m_tr, os=osf, sys=seam.sys)
        return seam

    def run(self):
        seam = self.bind_seam()
        try:
            self.setup()
            epochs = list(self.workload) + [{'env': [], 'procs': [[['parse_include', k] for k in SRC_KEYS]],
                                             'probe': True}]
            for ei, ep in enumerate(epochs):
                self.epoch_index = ei
                for ev in ep['env']:
                    self.apply_env(ev)
                if ep.get('probe'):
                    # the closing probe process runs on a healthy machine
                    self.fs.dev_free.clear()
                    self.decider = ProbeDecider()
                self.pending_mid = list(ep.get('mid', []))
                base = len(self.world.procs)
                dstart = len(self.world.decisions)
                self.decider.new_epoch(ei, base)
                for ops in ep['procs']:
                    self.world.spawn(self._environ(), self.make_body(ops), version=self.scanner_version)
                self.world.record(-1, 'EPOCH', None, None, 'procs=%d' % len(ep['procs']))
                try:
                    self.world.run_until_quiescent(self.decider, step_cap=200000 if self.thorough else 60000)
                finally:
                    if not ep.get('probe'):
                        self.epoch_decisions.append([[d[0], d[1] - base if d[1] >= 0 else -1] + d[2:]
                                                     for d in self.world.decisions[dstart:]])
                    # modifications that no decision fired still happen before the next epoch
                    while self.pending_mid:
                        self.apply_env(self.pending_mid.pop(0))
                for p in self.world.procs[base:]:
                    if p.outcome is None:
                        raise HarnessError('process %d has no outcome' % p.slot)
                    if p.outcome[0] == 'seamgap':
                        raise p.outcome[1]
                    if p.outcome[0] == 'raised':
                        e = p.outcome[1]
                        raise HarnessError('simulated process %d died in harness code: %r\n%s' % (
                            p.slot, e, ''.join(traceback.format_exception(type(e), e, e.__traceback__))))
                    if p.outcome[0] == 'killed':
                        self.probe('process_killed')
                if self.violations or self.harness_errors:
                    break
            if self.harness_errors:
                raise HarnessError('; '.join(self.harness_errors))
        finally:
            try:
                self.world.abort_all()
            finally:
                seam.restore()
        return self


class ProbeDecider(object):
    def new_epoch(self, ei=0, base=0):
        pass

    def decide(self, world, runnable):
        return runnable[0].slot, RUN


# ---------------------------------------------------------------------------------------
# One run as a pure function of its spec
# ---------------------------------------------------------------------------------------

def family_of(index):
    r = index % 10
    if r < 4:
        return 'sched'
    if r < 7:
        return 'crash'
    if r < 9:
        return 'oserr'
    return 'midmod'


def make_spec(root_seed, index, thorough, coarse_clock=False):
    seed = core.derive_seed(ENGINE, PROP if not coarse_clock else PROP + '/coarseclock', root_seed, index)
    rng = random.Random(seed)
    if coarse_clock:
        # observation family (never a verdict): time stamps with the granularity of an old or
        # networked file system; an mtime comparison cannot tell two writes within one tick apart
        cfg = gen_config(rng, rng.choice(['sched', 'midmod']), thorough)
        cfg['clock'] = 'coarse'
        cfg['clock_gran_ns'] = rng.choice([4_000_000, 1_000_000_000, 2_000_000_000])
    else:
        cfg = gen_config(rng, family_of(index), thorough)
    cfg['clock_seed'] = rng.randrange(1 << 30)
    workload = gen_workload(rng, cfg, thorough)
    return {'engine': ENGINE, 'property': PROP, 'verif_seed': root_seed, 'run_index': index, 'seed': seed,
            'config': cfg, 'workload': workload, 'decisions': None, 'sched_seed': rng.randrange(1 << 62),
            'thorough': thorough}


def log_digest(log):
    h = hashlib.sha256()
    for ev in log:
        h.update(repr(ev).encode())
    return h.hexdigest()


def interleaving_signature(sim):
    h = hashlib.sha256()
    cd = sim.cachedir
    for ev in sim.world.log:
        if ev[2] >= 0 and not ev[3].startswith('OP'):
            h.update(('%d%s%s;' % (ev[2], ev[3], classify(ev[4], cd))).encode())
    return h.hexdigest()[:16]


def execute(spec, want_log=False):
    """Run one spec.  Returns a JSON-able result; never raises for a violation."""
    cfg, workload = spec['config'], spec['workload']
    if spec.get('decisions') is not None:
        factory = lambda sim: ReplayDecider(spec['decisions'])      # noqa: E731
    else:
        factory = lambda sim: RandomDecider(random.Random(spec['sched_seed']), cfg, sim)   # noqa: E731
    sim = CacheSim(cfg, workload, factory, thorough=spec.get('thorough', False))
    res = {'run_index': spec.get('run_index'), 'seed': spec.get('seed'), 'family': cfg['family'],
           'harness_error': None, 'violations': []}
    try:
        sim.run()
    except SeamGap as e:
        res['harness_error'] = 'seam gap: %s' % (e,)
    except HarnessError as e:
        res['harness_error'] = 'harness: %s' % (e,)
    except OSError as e:
        if not getattr(e, '_sim', False):
            res['harness_error'] = 'seam escape (real OS error inside the simulation): %r' % (e,)
        else:
            res['harness_error'] = 'harness: stray simulated OSError %r\n%s' % (e, traceback.format_exc())
    except Exception as e:
        res['harness_error'] = 'harness: %r\n%s' % (e, traceback.format_exc())
    res['violations'] = [v.to_json() for v in sim.violations]
    res['decisions'] = sim.epoch_decisions
    res['digest'] = log_digest(sim.world.log)
    res['steps'] = sim.world.steps
    res['events'] = len(sim.world.log)
    res['sim_ns'] = sim.fs.now_ns - 1_000_000 * 10**9
    res['faults'] = dict(sim.world.fault_counts)
    res['probes'] = dict(sim.probes)
    res['midop_switches'] = sim.midop_switches
    res['isig'] = interleaving_signature(sim)
    res['states'] = sorted(sim.states)
    res['ops_total'] = len(sim.ops)
    res['ops_completed'] = sum(1 for r in sim.ops if 'result' in r)
    res['inapplicable'] = getattr(sim.main_decider, 'inapplicable', 0) if spec.get('decisions') is not None else 0
    if want_log:
        res['log'] = [list(ev) for ev in sim.world.log]
    return res
