"""Seeded generator of scan jobs for engine E2 (DESIGN.md §4.3).  A job is a JSON-able dict:

  ns, version, id_prefixes, sym_prefixes, includes, options,
  file_order      canonical command-line order of the source files
  order_before    [[a, b], ...] a must be named before b (C needs the declaration first)
  decls           structured declarations (cfront.py), each with 'file' (relative) and 'line'
  comments        [[text, file, line], ...] GTK-Doc blocks
  deps            list of dependency jobs (same shape), each scanned by the scanner itself into deps/<Ns>-<ver>.gir
  dump            optional list of runtime types for the introspection-binary stub (thorough tier)
"""

RECORD_NAMES = ['Widget', 'Item', 'Node', 'Buffer', 'Cursor', 'Palette', 'Region', 'Token', 'Anchor', 'Matrix']
ENUM_NAMES = ['Kind', 'Mode', 'Level', 'Shape']
FLAG_NAMES = ['Flags', 'Caps', 'Hints']
CB_NAMES = ['Func', 'Notify', 'Visitor', 'Compare']
VERBS = ['frob', 'reset', 'append', 'lookup', 'get_size', 'set_name', 'get_name', 'to_string', 'compare', 'poke',
         'attach', 'detach', 'flush', 'measure']
BASIC = [['basic', 'int'], ['named', 'gint'], ['named', 'guint'], ['named', 'gdouble'], ['named', 'gboolean'],
         ['basic', 'unsigned int'], ['named', 'gsize'], ['named', 'guint8'], ['basic', 'long'], ['basic', 'float']]
STRING_IN = ['ptr', ['const', ['basic', 'char']]]
STRING_OUT = ['ptr', ['basic', 'char']]
GPOINTER = ['named', 'gpointer']


def snake(name):
    out = ''
    for ch in name:
        if ch.isupper() and out:
            out += '_'
        out += ch.lower()
    return out


class Lines(object):
    def __init__(self):
        self.n = {}

    def take(self, f, k=1):
        cur = self.n.get(f, 3)
        self.n[f] = cur + k + 1
        return cur


CRAYON_TYPES = ['crayon_t', 'crayon_surface_t', 'crayon_matrix_t']


def gen_namespace(rng, nsname, thorough, deps, want_blocks=True, main=True, gobject=False, crayon=False):
    """deps: list of already generated dependency jobs whose types may be referenced."""
    P = nsname                                   # identifier prefix
    p = nsname.lower()                           # symbol prefix
    lines = Lines()
    decls, comments, order_before = [], [], []
    napi = rng.randint(1, 3) if main else 1
    apis = ['%s-api%d.h' % (p, i + 1) for i in range(napi)]
    cfiles = ['%s-doc%d.c' % (p, i + 1) for i in range(rng.randint(0, 2 if main else 1))]
    f_typedefs, f_structs, f_types = p + '-typedefs.h', p + '-structs.h', p + '-types.h'
    files = cfiles + [f_typedefs, f_structs, f_types] + apis
    order_before.append([f_typedefs, f_types])
    for a in apis:
        order_before.append([f_types, a])
        order_before.append([f_typedefs, a])

    def D(d, f, k=1):
        d['file'] = f
        d['line'] = lines.take(f, k)
        decls.append(d)
        return d

    def block(text_lines, target_file):
        f = target_file
        if cfiles and rng.random() < 0.5:
            f = rng.choice(cfiles)
        body = '/**\n' + ''.join(' * %s\n' % l if l else ' *\n' for l in text_lines) + ' */'
        comments.append([body, f, lines.take(f, len(text_lines) + 2)])


    def type_section(ctype):
        # a SECTION named after a type's lower-cased C name documents the same node as the type's
        # own block (round 13); which of the two prevails must not depend on arrival order
        block(['SECTION:%s' % ctype.lower(), '@short_description: about %s' % ctype, '@title: %s' % ctype, '',
               'What the section says about %s.' % ctype] +
              (['', 'Since: %s' % rng.choice(['0.8', '1.2', '1.4'])] if rng.random() < 0.6 else []) +
              (['', 'Stability: %s' % rng.choice(['Stable', 'Unstable'])] if rng.random() < 0.4 else []),
              rng.choice(apis))

    dep_types = []       # (ctype name) records of dependencies usable as pointer params
    for d in deps:
        for r in d.get('_records', []):
            dep_types.append(r.split(':', 1)[1] if r.startswith('-shared:') else d['ns'] + r)

    # types of the hand-written Crayon GIR (sim/fixtures), reachable directly or only through a
    # dependency that includes it: their GIR names are not their prefix-stripped C names
    foreign = []
    for d in deps:
        for t in d.get('_foreign_types', []):
            if t not in foreign:
                foreign.append(t)
    if crayon:
        foreign = list(CRAYON_TYPES)
    dep_types.extend(foreign)

    copyfree = []
    nrec = rng.randint(1, 4 if thorough else 3)
    records = rng.sample(RECORD_NAMES, nrec)
    nested = None
    if rng.random() < 0.4:
        # two types whose underscored names nest (widget / widget_item): a function called
        # <p>_widget_item_... must go to the longest matching type whatever the arrival order
        nested = records[0]
        records.append(nested + 'Item')
    enums = rng.sample(ENUM_NAMES, rng.randint(0, 2))
    flags = rng.sample(FLAG_NAMES, rng.randint(0, 1))
    cbs = rng.sample(CB_NAMES, rng.randint(0, 2))
    since = ['1.2', '1.4', '2.0', '0.8']

    def rand_basic():
        return rng.choice(BASIC)

    def rand_param_type(allow_records=True):
        r = rng.random()
        if r < 0.35:
            return rand_basic()
        if r < 0.5:
            return STRING_IN
        if r < 0.75 and allow_records and records:
            return ['ptr', ['named', P + rng.choice(records)]]
        if r < 0.85 and dep_types:
            return ['ptr', ['named', rng.choice(dep_types)]]
        if r < 0.92 and enums:
            return ['named', P + rng.choice(enums)]
        return GPOINTER

    # ---- records: forward typedef in one header, body in another --------------------
    for r in records:
        style = rng.choice(['split', 'split', 'split', 'opaque', 'anon', 'combined', 'union'])
        is_union = style == 'union'
        tag = '_' + P + r
        members = []
        for i in range(rng.randint(1, 5)):
            mk = rng.random()
            if mk < 0.5:
                mt = rand_basic()
            elif mk < 0.56:
                mt = ['ptr', ['ptr', ['basic', 'char']]]       # char **: the spelling list_names() returns, as a field
            elif mk < 0.6:
                mt = STRING_OUT
            elif mk < 0.7:
                mt = ['array', rand_basic(), rng.randint(2, 8)]
            elif mk < 0.8:
                mt = ['ptr', ['struct', '_' + P + rng.choice(records)]]
            elif mk < 0.9:
                mt = ['ptr', ['func', ['void'], [['self', ['ptr', ['struct', tag]]], ['x', rand_basic()]]]]
            else:
                mt = GPOINTER
            if mk >= 0.9 and rng.random() < 0.5:
                # an anonymous nested struct or union member
                mt = [rng.choice(['anon_struct', 'anon_union']),
                      [{'name': 'in_a', 'type': rand_basic()}, {'name': 'in_b', 'type': GPOINTER}]]
            m = {'name': 'f%d_%s' % (i, snake(r)), 'type': mt, 'private': rng.random() < 0.15}
            if mt[0] in ('basic', 'named') and mt[1] in ('guint', 'unsigned int') and rng.random() < 0.3:
                m['bits'] = rng.randint(1, 7)
            members.append(m)
        counted = False
        if style != 'opaque' and rng.random() < 0.3:
            # a counted array: the length lives in a sibling field, named by an annotation
            members.append({'name': 'n_cells', 'type': ['named', 'guint'], 'private': False})
            members.append({'name': 'cells', 'type': ['ptr', rng.choice([['basic', 'int'], ['named', 'gdouble']])], 'private': False})
            if rng.random() < 0.5:
                members.append({'name': 'owner_ref', 'type': GPOINTER, 'private': False})
            counted = True
        if style == 'split' and rng.random() < 0.1:
            members = []                       # struct _T { }; -- an empty body
            counted = False
        if style in ('split', 'union'):
            D({'k': 'typedef_struct_fwd', 'name': P + r, 'tag': tag, 'union': is_union}, f_typedefs)
            if rng.random() < 0.25:
                # a second typedef of the same tag (the GObject / GInitiallyUnowned pattern); the two
                # typedefs keep their relative order, only the body moves relative to them
                D({'k': 'typedef_struct_fwd', 'name': P + r + 'Twin', 'tag': tag, 'union': is_union}, f_typedefs)
            D({'k': 'struct_def', 'tag': tag, 'members': members, 'union': is_union}, f_structs, len(members) + 1)
        elif style == 'opaque':
            D({'k': 'typedef_struct_fwd', 'name': P + r, 'tag': tag}, f_typedefs)
        elif style == 'anon':
            D({'k': 'typedef_struct', 'name': P + r, 'tag': None, 'members': members}, f_typedefs, len(members) + 1)
        else:
            D({'k': 'typedef_struct', 'name': P + r, 'tag': tag, 'members': members}, f_typedefs, len(members) + 1)
            if rng.random() < 0.25:
                D({'k': 'typedef_struct_fwd', 'name': P + r + 'Twin', 'tag': tag}, f_typedefs)
        rec_ann = ''
        if style == 'opaque' and rng.random() < 0.4:
            rec_ann = ' (foreign)'
        elif rng.random() < 0.25:
            # explicit copy/free functions (they are declared among the functions further down)
            rec_ann = ' (copy-func %s_%s_dup) (free-func %s_%s_destroy)' % (p, snake(r), p, snake(r))
            copyfree.append(r)
        field_blocks = []
        if counted and want_blocks:
            how = rng.choice(['struct', 'field', 'both', 'none'])
            if how in ('field', 'both'):
                field_blocks.append(['%s%s.cells: (array length=n_cells)%s' % (P, r, rng.choice(['', ' (nullable)'])), '',
                                     'The cells, documented on their own.'])
            if any(m['name'] == 'owner_ref' for m in members) and rng.random() < 0.6:
                field_blocks.append(['%s%s.owner_ref: (type %s.%s)' % (P, r, nsname, rng.choice(records)), '', 'Who owns this.'])
        else:
            how = 'none'
        if want_blocks and (rec_ann or how in ('struct', 'both') or rng.random() < 0.6):
            tl = ['%s%s:%s' % (P, r, rec_ann)]
            if how in ('struct', 'both'):
                tl.append('@cells: (array length=n_cells): the cells')
                tl.append('@n_cells: how many cells')
            if style != 'opaque':
                for m in members[:2]:
                    if not m['private'] and rng.random() < 0.6:
                        tl.append('@%s: the %s field' % (m['name'], m['name']))
            tl += ['', 'A %s of the %s library.' % (r.lower(), nsname)]
            if rng.random() < 0.4:
                tl += ['', 'Since: %s' % rng.choice(since)]
            if rng.random() < 0.2:
                tl += ['', 'Deprecated: %s: Use something else' % rng.choice(since)]
            block(tl, f_typedefs)
            if rng.random() < 0.35:
                # a SECTION named after the type (lower-cased C name) documents the same node as the
                # type's own block: both set description, position, version and attributes, and which
                # one prevails must not depend on which arrived first (round 13)
                block(['SECTION:%s' % (P + r).lower(), '@short_description: about %s%s' % (P, r),
                       '@title: %s%s' % (P, r), '', 'What the section says about %s.' % r] +
                      (['', 'Since: %s' % rng.choice(since)] if rng.random() < 0.6 else []) +
                      (['', 'Stability: %s' % rng.choice(['Stable', 'Unstable'])] if rng.random() < 0.4 else []),
                      rng.choice(apis))
        for fb in field_blocks:
            block(fb, f_typedefs)

    if rng.random() < 0.3:
        # typedef struct _PHandle *PHandle; with the body (or none) elsewhere
        D({'k': 'typedef_alias', 'name': P + 'Handle', 'type': ['ptr', ['struct', '_' + P + 'Handle']]}, f_typedefs)
        if rng.random() < 0.6:
            D({'k': 'struct_def', 'tag': '_' + P + 'Handle', 'members': [{'name': 'fd', 'type': ['basic', 'int']}]}, f_structs, 2)

    # ---- enums, flags, callbacks, aliases, constants ---------------------------------
    for e in enums:
        n = rng.randint(1, 5)
        base = '%s_%s' % (p.upper(), snake(e).upper())
        members = [['%s_%s' % (base, w), i if rng.random() < 0.8 else i * 10 - 5]
                   for i, w in enumerate(rng.sample(['ALPHA', 'BETA', 'GAMMA', 'DELTA', 'OMEGA', 'ZETA'], n))]
        D({'k': 'typedef_enum', 'name': P + e, 'members': members, 'flags': False}, f_types, n + 1)
        if want_blocks and rng.random() < 0.5:
            tl = ['%s%s:' % (P, e)] + ['@%s: value %d' % (m[0], m[1]) for m in members[:3]] + ['', 'Kinds of things.']
            block(tl, f_types)
            if rng.random() < 0.4:
                # a member documented in a block of its own as well (that block takes precedence)
                block(['%s:' % members[0][0], '', 'The first one, documented on its own.', '', 'Since: 1.4'], f_types)
    for e in flags:
        n = rng.randint(1, 4)
        base = '%s_%s' % (p.upper(), snake(e).upper())
        members = [['%s_%s' % (base, w), 1 << i] for i, w in enumerate(rng.sample(['READ', 'WRITE', 'EXEC', 'SYNC', 'LAZY'], n))]
        D({'k': 'typedef_enum', 'name': P + e, 'members': members, 'flags': True}, f_types, n + 1)
    for c in cbs:
        owner = rng.choice(records)
        params = [[snake(owner), ['ptr', ['named', P + owner]]]]
        if rng.random() < 0.7:
            params.append(['user_data', GPOINTER])
        D({'k': 'typedef_callback', 'name': P + owner + c, 'ret': rng.choice([['void'], ['named', 'gboolean'], ['basic', 'int']]),
           'params': params, 'pointer': rng.random() < 0.85}, f_types)      # typedef void (*F)(...) or typedef void F(...)
        if want_blocks and rng.random() < 0.5:
            block(['%s%s%s:' % (P, owner, c), '@%s: the %s' % (snake(owner), owner.lower())] +
                  (['@user_data: user data'] if len(params) > 1 else []) + ['', 'A callback.'], f_types)
    if rng.random() < 0.3:
        # a callback that cannot be introspected (it takes `...`), used by name as the type of a
        # record field: the field is not introspectable either, whichever of the two arrives first
        D({'k': 'typedef_callback', 'name': P + 'PrintFunc', 'ret': ['void'], 'pointer': True, 'varargs': True,
           'params': [['format', STRING_IN]]}, f_types)
        holder = rng.choice(records)
        order_before.append([f_types, f_structs])
        D({'k': 'typedef_struct_fwd', 'name': P + holder + 'Hooks', 'tag': '_' + P + holder + 'Hooks'}, f_typedefs)
        D({'k': 'struct_def', 'tag': '_' + P + holder + 'Hooks', 'members': [
            {'name': 'print', 'type': ['named', P + 'PrintFunc'], 'private': False},
            {'name': 'level', 'type': ['basic', 'int'], 'private': False}] +
            ([{'name': 'notify', 'type': ['named', cb_plain], 'private': False}
              for cb_plain in [d['name'] for d in decls if d['k'] == 'typedef_callback' and not d.get('varargs')][:1]])},
          f_structs, 4)
    for i in range(rng.randint(0, 2)):
        D({'k': 'typedef_alias', 'name': '%sCount%d' % (P, i), 'type': rng.choice([['basic', 'int'], ['named', 'guint'], ['named', 'gsize']])}, f_types)
    for i in range(rng.randint(0, 3)):
        v = rng.choice([42, -1, 1 << 20, 'hello', 'a "quoted" <&> string', 1.5, True, 255])
        d = {'k': 'define', 'name': '%s_CONST_%d' % (p.upper(), i), 'value': v}
        if isinstance(v, int) and not isinstance(v, bool) and rng.random() < 0.3:
            d['ctype'] = rng.choice(['guint8', 'guint16', 'gint64'])
        D(d, rng.choice(apis))
        if want_blocks and rng.random() < 0.3:
            block(['%s:%s' % (d['name'], rng.choice(['', '', ' (value 99)', ' (skip)'])), '', 'A constant.'] +
                  (['', 'Stability: Unstable: may go away'] if rng.random() < 0.3 else []), d['file'])
    if rng.random() < 0.3:
        D({'k': 'extern_var', 'name': '%s_global_state' % p, 'type': ['basic', 'int']}, rng.choice(apis))

    # ---- functions ---------------------------------------------------------------------
    cb_names = [d['name'] for d in decls if d['k'] == 'typedef_callback']
    for r in records:
        sr = snake(r)
        f = rng.choice(apis)
        ctors = rng.sample(['new', 'new_with_x', 'new_from_string', 'new_default'], rng.choice([0, 1, 1, 2, 3]))
        for cname in ctors:
            params = {'new': [], 'new_default': [], 'new_with_x': [['x', rand_basic()]],
                      'new_from_string': [['str', STRING_IN]]}[cname]
            fn = D({'k': 'function', 'name': '%s_%s_%s' % (p, sr, cname),
                    'ret': ['ptr', ['named', P + r]], 'params': params}, rng.choice(apis))
            if want_blocks and rng.random() < 0.7:
                tl = ['%s:' % fn['name']] + ['@%s: the %s' % (n, n) for n, _ in params]
                tl += ['', 'Creates a new %s.' % r.lower(), '', 'Returns: (transfer full): a new #%s%s' % (P, r)]
                if rng.random() < 0.3:
                    tl += ['Since: %s' % rng.choice(since)]
                block(tl, fn['file'])
        for v in rng.sample(VERBS, rng.randint(1, 4)):
            params = [['self', ['ptr', ['named', P + r]]]]
            for i in range(rng.randint(0, 3)):
                params.append(['arg%s' % 'abc'[i], rand_param_type()])
            if cb_names and rng.random() < 0.25:
                params.append(['func', ['named', rng.choice(cb_names)]])
                params.append(['user_data', GPOINTER])
            ret = rng.choice([['void'], ['void'], rand_basic(), STRING_IN, STRING_OUT, ['ptr', ['named', P + rng.choice(records)]]])
            fn = D({'k': 'function', 'name': '%s_%s_%s' % (p, sr, v), 'ret': ret, 'params': params,
                    'varargs': rng.random() < 0.05}, rng.choice(apis))
            if want_blocks and rng.random() < 0.6:
                tl = ['%s:%s' % (fn['name'], rng.choice(['', '', ' (skip)', ' (attributes doc.group=core)']))]
                for n, t in params:
                    ann = ''
                    if t[0] == 'ptr' and n != 'self' and rng.random() < 0.4:
                        ann = rng.choice([' (nullable)', ' (transfer none)', ' (nullable) (transfer none)', ' (allow-none)',
                                          ' (attributes doc.role=input)', ' (nullable) (attributes a.b=c d.e=f)'])
                    if n == 'func':
                        ann = rng.choice(['', ' (scope call)', ' (scope async)'])
                    if rng.random() < 0.85:
                        tl.append('@%s:%s%s the %s' % (n, ann, ':' if ann else '', n))
                if rng.random() < 0.08:
                    tl.append('@bogus: documented, but not a parameter')
                tl += ['', 'Does %s on a %s.' % (v.replace('_', ' '), r.lower()), 'Second line with <markup> & entities.']
                if ret[0] != 'void':
                    rann = ''
                    if ret[0] == 'ptr':
                        rann = rng.choice(['', ' (transfer none):', ' (transfer full):', ' (nullable):'])
                    tl += ['', 'Returns:%s the result' % rann]
                if rng.random() < 0.3:
                    tl += ['Since: %s' % rng.choice(since)]
                if rng.random() < 0.15:
                    tl += ['Deprecated: %s: Use %s_%s_poke() instead' % (rng.choice(since), p, sr)]
                if rng.random() < 0.1:
                    tl += ['Stability: Unstable']
                block(tl, fn['file'])
        if rng.random() < 0.4:
            D({'k': 'function', 'name': '%s_%s_count_all' % (p, sr), 'ret': ['basic', 'int'], 'params': []}, f)
    shared_types = [t for t in dep_types if t in ('DpbShared', 'DpShared')]
    if shared_types:
        fn = D({'k': 'function', 'name': '%s_use_shared' % p, 'ret': ['ptr', ['named', shared_types[0]]],
                'params': [['shared', ['ptr', ['named', shared_types[0]]]]]}, rng.choice(apis))
        if want_blocks:
            block(['%s:' % fn['name'], '@shared: (transfer none): the shared thing', '', 'Uses it.', '',
                   'Returns: (transfer none): the same'], fn['file'])

    if foreign:
        for i in range(rng.randint(1, 2)):
            t1, t2 = rng.choice(foreign), rng.choice(foreign)
            fn = D({'k': 'function', 'name': '%s_%s%d' % (p, rng.choice(['paint', 'stroke']), i),
                    'ret': rng.choice([['void'], ['ptr', ['named', t2]]]),
                    'params': [['cr', ['ptr', ['named', t1]]], ['format', ['named', 'crayon_format_t']]]}, rng.choice(apis))
            if want_blocks and rng.random() < 0.6:
                block(['%s:' % fn['name'], '@cr: (transfer none): what to draw with', '@format: the format', '', 'Draws.'] +
                      (['', 'Returns: (transfer none): something'] if fn['ret'][0] != 'void' else []), fn['file'])

    if nested:
        sn = snake(nested)
        RI = ['ptr', ['named', P + nested + 'Item']]
        RP0 = ['ptr', ['named', P + nested]]
        D({'k': 'function', 'name': '%s_%s_item_create' % (p, sn), 'ret': RI, 'params': []}, rng.choice(apis))
        D({'k': 'function', 'name': '%s_%s_item_get_owner' % (p, sn), 'ret': RP0, 'params': [['self', RI]]}, rng.choice(apis))
        D({'k': 'function', 'name': '%s_%s_item_count' % (p, sn), 'ret': ['basic', 'int'], 'params': [['self', RP0]]}, rng.choice(apis))
        D({'k': 'function', 'name': '%s_%s_item_defaults' % (p, sn), 'ret': ['void'], 'params': []}, rng.choice(apis))
        # static functions of both, spread over the headers: in some arrival order one of the outer
        # type is met right before one of the inner type
        for nm in rng.sample(['reset_all', 'registry_size', 'flush_all'], rng.randint(1, 3)):
            D({'k': 'function', 'name': '%s_%s_%s' % (p, sn, nm), 'ret': ['basic', 'int'], 'params': []}, rng.choice(apis))
            if rng.random() < 0.7:
                D({'k': 'function', 'name': '%s_%s_item_%s' % (p, sn, nm), 'ret': ['basic', 'int'], 'params': []}, rng.choice(apis))

    # ---- a chain of callbacks that cannot be introspected: A takes a va_list, B takes A, and
    # functions/methods take A or B.  Introspectability has to propagate along the chain
    # whatever the order in which the typedefs and their users are met.
    if main and rng.random() < 0.3:
        fa, fb = p + '-log-a.h', p + '-log-b.h'
        files.extend([fa, fb])
        order_before.append([fa, fb])
        for a in apis:
            order_before.append([fa, a])
            order_before.append([fb, a])
        D({'k': 'typedef_callback', 'name': P + 'LogFunc', 'ret': ['void'], 'pointer': True,
           'params': [['message', STRING_IN], ['args', ['named', 'va_list']], ['user_data', GPOINTER]]}, fa)
        D({'k': 'typedef_callback', 'name': P + 'LogHook', 'ret': ['void'], 'pointer': True,
           'params': [['func', ['named', P + 'LogFunc']], ['data', GPOINTER]]}, fb)
        # without a (scope) on their callback-typed parameter B and C would be non-introspectable
        # for that reason alone, whatever the order
        comments.append(['/**\n * %sLogHook:\n * @func: (scope call): the function\n * @data: data\n *\n * A hook.\n */' % P,
                         fb, lines.take(fb, 8)])
        if rng.random() < 0.5:
            # one level deeper: C takes B
            fc = p + '-log-c.h'
            files.append(fc)
            order_before.append([fb, fc])
            for a in apis:
                order_before.append([fc, a])
            D({'k': 'typedef_callback', 'name': P + 'LogChain', 'ret': ['void'], 'pointer': True,
               'params': [['hook', ['named', P + 'LogHook']], ['data', GPOINTER]]}, fc)
            comments.append(['/**\n * %sLogChain:\n * @hook: (scope call): the hook\n * @data: data\n *\n * A chain.\n */' % P,
                             fc, lines.take(fc, 8)])
            fn = D({'k': 'function', 'name': '%s_set_log_chain' % p, 'ret': ['void'],
                    'params': [['chain', ['named', P + 'LogChain']], ['data', GPOINTER]]}, rng.choice(apis))
            if want_blocks:
                block(['%s:' % fn['name'], '@chain: (scope call): the chain', '@data: data', '', 'Sets it.'], fn['file'])
        fn = D({'k': 'function', 'name': '%s_set_log_func' % p, 'ret': ['void'],
                'params': [['func', ['named', P + 'LogFunc']], ['user_data', GPOINTER]]}, rng.choice(apis))
        if want_blocks:
            block(['%s:' % fn['name'], '@func: (scope call): the function', '@user_data: data', '', 'Sets it.'], fn['file'])
        fn = D({'k': 'function', 'name': '%s_set_log_hook' % p, 'ret': ['void'],
                'params': [['hook', ['named', P + 'LogHook']], ['data', GPOINTER]]}, rng.choice(apis))
        if want_blocks:
            block(['%s:' % fn['name'], '@hook: (scope call): the hook', '@data: data', '', 'Sets it.'], fn['file'])
        if records:
            r0 = rng.choice(records)
            fn = D({'k': 'function', 'name': '%s_%s_set_sink' % (p, snake(r0)), 'ret': ['void'],
                    'params': [['self', ['ptr', ['named', P + r0]]], ['sink', ['named', P + rng.choice(['LogFunc', 'LogHook'])]],
                               ['user_data', GPOINTER]]}, rng.choice(apis))
            if want_blocks:
                block(['%s:' % fn['name'], '@self: the object', '@sink: (scope call): the sink', '@user_data: data', '', 'Sets it.'], fn['file'])

    # ---- functions with out parameters, arrays, containers, closures, (type) overrides, rename-to, macros
    INTP = ['ptr', ['basic', 'int']]
    for r in records:
        sr = snake(r)
        SELF = ['self', ['ptr', ['named', P + r]]]
        if rng.random() < 0.35:
            fn = D({'k': 'function', 'name': '%s_%s_get_range' % (p, sr), 'ret': ['named', 'gboolean'],
                    'params': [SELF, ['min', INTP], ['max', INTP]]}, rng.choice(apis))
            if want_blocks and rng.random() < 0.8:
                block(['%s:' % fn['name'], '@self: the object', '@min: (out): the minimum',
                       '@max: (out) (optional): the maximum', '', 'Gets the range.', '', 'Returns: %TRUE if set'], fn['file'])
        if rng.random() < 0.35:
            fn = D({'k': 'function', 'name': '%s_%s_set_items' % (p, sr), 'ret': ['void'],
                    'params': [SELF, ['items', ['ptr', ['const', ['basic', 'int']]]], ['n_items', ['named', 'gsize']]]}, rng.choice(apis))
            if want_blocks and rng.random() < 0.8:
                block(['%s:' % fn['name'], '@self: the object', '@items: (array length=n_items) (nullable): the items',
                       '@n_items: number of items', '', 'Sets the items.'], fn['file'])
        if rng.random() < 0.25:
            # ... and as a parameter
            fn = D({'k': 'function', 'name': '%s_%s_set_names' % (p, sr), 'ret': ['void'],
                    'params': [SELF, ['names', ['ptr', ['ptr', ['basic', 'char']]]]]}, rng.choice(apis))
            if want_blocks and rng.random() < 0.5:
                block(['%s:' % fn['name'], '@self: the object', '@names: (array zero-terminated=1): the names', '', 'Sets names.'], fn['file'])
        if rng.random() < 0.3:
            fn = D({'k': 'function', 'name': '%s_%s_list_names' % (p, sr), 'ret': ['ptr', ['ptr', ['basic', 'char']]],
                    'params': [SELF]}, rng.choice(apis))
            if want_blocks and rng.random() < 0.8:
                block(['%s:' % fn['name'], '@self: the object', '', 'Lists names.', '',
                       'Returns: (transfer full) (array zero-terminated=1): the names'], fn['file'])
        if rng.random() < 0.3:
            fn = D({'k': 'function', 'name': '%s_%s_get_children' % (p, sr), 'ret': ['ptr', ['named', 'GList']],
                    'params': [SELF]}, rng.choice(apis))
            if want_blocks and rng.random() < 0.8:
                how = rng.choice(['(element-type %s.%s)' % (nsname, r), '(element-type %s.%s)' % (nsname, r),
                                  '(type GLib.List(%s.%s))' % (nsname, r), '(type GLib.List(utf8))',
                                  '(type GLib.HashTable(utf8,%s.%s))' % (nsname, r), '(type GLib.List(NoSuch.Thing))'])
                block(['%s:' % fn['name'], '@self: the object', '', 'Children.', '',
                       'Returns: %s (transfer container): the children' % how], fn['file'])
        if cb_names and rng.random() < 0.35:
            fn = D({'k': 'function', 'name': '%s_%s_foreach' % (p, sr), 'ret': ['void'],
                    'params': [SELF, ['func', ['named', rng.choice(cb_names)]], ['user_data', GPOINTER],
                               ['notify', ['named', 'GDestroyNotify']]]}, rng.choice(apis))
            if want_blocks and rng.random() < 0.8:
                block(['%s:' % fn['name'], '@self: the object',
                       rng.choice(['@func: (scope notified) (closure user_data) (destroy notify): a function',
                                   '@func: (scope notified) (destroy notify): a function',
                                   '@func: (scope notified): a function']),
                       rng.choice(['@user_data: data for @func', '@user_data: (closure): data for @func',
                                   '@user_data: (closure func): data for @func']),
                       '@notify: destroy notify', '', 'Calls @func.'], fn['file'])
        if rng.random() < 0.25:
            fn = D({'k': 'function', 'name': '%s_%s_get_data' % (p, sr), 'ret': GPOINTER, 'params': [SELF, ['key', STRING_IN]]}, rng.choice(apis))
            if want_blocks:
                block(['%s:' % fn['name'], '@self: the object', '@key: (type filename): a key', '', 'Data.', '',
                       'Returns: (type %s.%s) (transfer none) (nullable): the data' % (nsname, rng.choice(records))], fn['file'])
        if rng.random() < 0.3:
            # hash tables (two element types), pointer arrays, byte arrays and GArrays
            kind = rng.choice(['hash', 'hash', 'ptrarray', 'bytes', 'garray', 'slist'])
            ct = {'hash': 'GHashTable', 'ptrarray': 'GPtrArray', 'bytes': 'GByteArray', 'garray': 'GArray', 'slist': 'GSList'}[kind]
            et = {'hash': rng.choice(['utf8 %s.%s' % (nsname, r), 'utf8 gint', 'gpointer gpointer', 'utf8 utf8']),
                  'ptrarray': rng.choice(['%s.%s' % (nsname, r), 'utf8', 'filename']), 'bytes': None,
                  'garray': rng.choice(['gint', 'gdouble', 'guint8']), 'slist': rng.choice(['utf8', '%s.%s' % (nsname, r)])}[kind]
            fn = D({'k': 'function', 'name': '%s_%s_get_index' % (p, sr), 'ret': ['ptr', ['named', ct]],
                    'params': [SELF, ['filter', ['ptr', ['named', ct]]]]}, rng.choice(apis))
            if want_blocks and rng.random() < 0.85:
                e1 = ('(element-type %s) ' % et) if et and rng.random() < 0.85 else ''
                e2 = ('(element-type %s) ' % et) if et and rng.random() < 0.85 else ''
                block(['%s:' % fn['name'], '@self: the object', '@filter: %s(nullable): a filter' % e1, '', 'The index.', '',
                       'Returns: %s(transfer %s): the index' % (e2, rng.choice(['none', 'container', 'full']))], fn['file'])
    if want_blocks and rng.random() < 0.35:
        # one (type ...) string on values whose C types differ: each keeps its own c:type
        tstr = rng.choice(['filename', 'utf8', '%s.%s' % (nsname, rng.choice(records))])
        if tstr in ('filename', 'utf8'):
            ctypes_ = [STRING_OUT, ['ptr', ['named', 'gchar']], STRING_IN, ['ptr', ['const', ['named', 'gchar']]]]
        else:
            ctypes_ = [GPOINTER, ['ptr', ['named', P + tstr.split('.')[1]]], ['ptr', ['const', ['void']]]]
        for i, ct in enumerate(rng.sample(ctypes_, rng.randint(2, len(ctypes_)))):
            fn = D({'k': 'function', 'name': '%s_peek_thing%d' % (p, i), 'ret': ct,
                    'params': [['where', rng.choice(ctypes_)]]}, rng.choice(apis))
            block(['%s:' % fn['name'], '@where: (type %s): where to look' % tstr, '', 'Peeks.', '',
                   'Returns: (type %s) (transfer none): what was found' % tstr], fn['file'])
    for r in copyfree:
        sr = snake(r)
        RP = ['ptr', ['named', P + r]]
        D({'k': 'function', 'name': '%s_%s_dup' % (p, sr), 'ret': RP, 'params': [['self', ['ptr', ['const', ['named', P + r]]]]]}, rng.choice(apis))
        D({'k': 'function', 'name': '%s_%s_destroy' % (p, sr), 'ret': ['void'], 'params': [['self', RP]]}, rng.choice(apis))
    for r in records:
        sr = snake(r)
        RP = ['ptr', ['named', P + r]]
        if rng.random() < 0.2:
            fn = D({'k': 'function', 'name': '%s_%s_make_default' % (p, sr), 'ret': RP, 'params': []}, rng.choice(apis))
            if want_blocks:
                block(['%s: (constructor)' % fn['name'], '', 'Makes one.', '', 'Returns: (transfer full): a new one'], fn['file'])
        if rng.random() < 0.2:
            fn = D({'k': 'function', 'name': '%s_attach_to_%s' % (p, sr), 'ret': ['void'],
                    'params': [['target', RP], ['level', ['basic', 'int']]]}, rng.choice(apis))
            if want_blocks:
                block(['%s: (method)' % fn['name'], '@target: the target', '@level: the level', '', 'Attaches.'] +
                      rng.choice([[], [], ['', 'Attributes: (doc.role attach)']]), fn['file'])
        if rng.random() < 0.25:
            fn = D({'k': 'function', 'name': '%s_%s_adjust' % (p, sr), 'ret': ['void'],
                    'params': [['self', RP], ['value', ['ptr', ['basic', 'int']]], ['out_rec', RP],
                               ['quad', ['ptr', ['named', 'gdouble']]]]}, rng.choice(apis))
            if want_blocks:
                block(['%s:' % fn['name'], '@self: the object', '@value: (inout): a value',
                       '@out_rec: %s: result' % rng.choice(['(out caller-allocates)', '(out)', '(out callee-allocates)', '(out) (optional)']),
                       '@quad: (array fixed-size=4) (not nullable): four numbers', '', 'Adjusts.'], fn['file'])

    # one rename-to pair at most (two of them aiming at one target would make order matter by design)
    if records and rng.random() < 0.3:
        sr = snake(records[0])
        D({'k': 'function', 'name': '%s_%s_open' % (p, sr), 'ret': ['void'],
           'params': [['self', ['ptr', ['named', P + records[0]]]], ['mode', ['basic', 'int']], ['varargs_like', GPOINTER]]}, rng.choice(apis))
        fn = D({'k': 'function', 'name': '%s_%s_open_simple' % (p, sr), 'ret': ['void'],
                'params': [['self', ['ptr', ['named', P + records[0]]]], ['mode', ['basic', 'int']]]}, rng.choice(apis))
        if want_blocks:
            if rng.random() < 0.5:
                block(['%s: (rename-to %s_%s_open)' % (fn['name'], p, sr), '@self: the object', '@mode: the mode', '', 'Opens.'], fn['file'])
            else:
                # the deprecated tag-style spelling, on a block whose identifier annotations read
                # exactly like those of other blocks
                block(['%s:%s' % (fn['name'], rng.choice(['', ' (skip)', ' (attributes doc.group=core)', ' (method)'])),
                       '@self: the object', '@mode: the mode', '', 'Opens.', '', 'Rename to: %s_%s_open' % (p, sr)], fn['file'])
    for i in range(rng.randint(0, 2)):
        D({'k': 'function_macro', 'name': '%s_%s_MACRO%d' % (p.upper(), rng.choice(['CHECK', 'IS', 'CAST']), i),
           'params': ['obj', 'val'][:rng.randint(1, 2)]}, rng.choice(apis))

    for i in range(rng.randint(0, 3)):
        params = [['arg%d' % j, rand_param_type()] for j in range(rng.randint(0, 3))]
        if rng.random() < 0.15:
            params.append(['blob', ['ptr', ['const', ['void']]]])            # gconstpointer
        if rng.random() < 0.1:
            params.append([None, rand_basic()])                             # a parameter without a name
        if rng.random() < 0.1:
            params.append(['table', ['array', rand_basic(), None]])         # int table[]
        fn = D({'k': 'function', 'name': '%s_%s' % (p, rng.choice(['init', 'shutdown', 'version', 'check', 'configure']) + str(i)),
                'ret': rng.choice([['void'], rand_basic(), STRING_IN, ['ptr', ['const', ['void']]]]), 'params': params,
                'inline': rng.random() < 0.1}, rng.choice(apis))
        if want_blocks and rng.random() < 0.5:
            block(['%s:' % fn['name']] + ['@%s: an argument' % n for n, _ in params if n] + ['', 'A plain function.'], fn['file'])
    if rng.random() < 0.2:
        D({'k': 'function', 'name': '_%s_private_helper' % p, 'ret': ['void'], 'params': []}, rng.choice(apis))
    if rng.random() < 0.2:
        D({'k': 'function', 'name': 'other_lib_function', 'ret': ['void'], 'params': []}, rng.choice(apis))
    if want_blocks and rng.random() < 0.5:
        sec = snake(rng.choice(records))
        block(['SECTION:%s' % sec, '@short_description: about %s' % sec, '@title: %s things' % sec.title(), '',
               'Long description of the %s section.' % sec], rng.choice(apis))

    # ---- GObject types described by the runtime dump (classes, interfaces, boxed, enums, error domains)
    dump, quarks = {}, {}
    registered_errors = []

    def x_is_error(d):
        return d['name'] in registered_errors
    if gobject:
        order_before.append([f_typedefs, f_structs])       # class structs name the typedefs in their vfuncs
        GOBJ, GOBJCLASS, GTYPE = ['named', 'GObject'], ['named', 'GObjectClass'], ['named', 'GType']

        def get_type_fn(snake_name):
            fn = '%s_%s_get_type' % (p, snake_name)
            D({'k': 'function', 'name': fn, 'ret': GTYPE, 'params': []}, rng.choice(apis))
            return fn

        classes = rng.sample(['Thing', 'Gadget', 'Engine'], rng.randint(1, 2))
        ifaces = rng.sample(['Doable', 'Plugin'], rng.randint(0, 2))
        for ifc in ifaces:
            si = snake(ifc)
            D({'k': 'typedef_struct_fwd', 'name': P + ifc, 'tag': '_' + P + ifc}, f_typedefs)
            # the vtable structure is called <T>Interface or <T>Iface; when a library carries both
            # (an old vtable kept next to the current one) <T>Iface is the one paired with the type
            vt_names = rng.choice([['Interface'], ['Interface'], ['Iface'], ['Iface', 'Interface'], ['Interface', 'Iface']])
            vfs = rng.sample(['do_it', 'undo_it', 'query'], rng.randint(1, 3))
            for vi, vt in enumerate(vt_names):
                D({'k': 'typedef_struct_fwd', 'name': P + ifc + vt, 'tag': '_' + P + ifc + vt}, f_typedefs)
                members = [{'name': 'g_iface', 'type': ['named', 'GTypeInterface']}]
                for vf in (vfs if vi == 0 else rng.sample(['do_it', 'undo_it', 'query', 'legacy_hook'], 2)):
                    members.append({'name': vf, 'type': ['ptr', ['func', ['void'], [['self', ['ptr', ['named', P + ifc]]]]]]})
                    if vi == 0 and rng.random() < 0.8:
                        D({'k': 'function', 'name': '%s_%s_%s' % (p, si, vf), 'ret': ['void'],
                           'params': [['self', ['ptr', ['named', P + ifc]]]]}, rng.choice(apis))
                D({'k': 'struct_def', 'tag': '_' + P + ifc + vt, 'members': members}, f_structs, len(members) + 1)
            fn = get_type_fn(si)
            props = ''.join('<property name="%s" type="gint" flags="%d"/>' % (n, fl)
                            for n, fl in rng.sample([('zeta', 3), ('alpha', 1), ('mid-prop', 7)], rng.randint(0, 3)))
            # (as in the real dump, <param> lists the signal's arguments without the emitting instance)
            sigs = ''.join('<signal name="%s" return="void" when="last">%s</signal>' % (n, rng.choice(['', '<param type="gint"/>']))
                           for n in rng.sample(['went', 'arrived'], rng.randint(0, 2)))
            dump[fn] = '<interface name="%s%s" get-type="%s">%s%s<prerequisite name="GObject"/></interface>' % (P, ifc, fn, props, sigs)
            if want_blocks and rng.random() < 0.5:
                block(['%s%s:' % (P, ifc), '', 'An interface.'] + (['', 'Since: 1.2'] if rng.random() < 0.5 else []), f_typedefs)
                if rng.random() < 0.3:
                    type_section(P + ifc)
        # GObject types of the dependencies (direct or nested): a class here may derive from one,
        # implement its interfaces, and have properties of its types
        dep_classes, dep_ifaces = [], []

        def collect(dl):
            for d in dl:
                for c in d.get('_classes', []):
                    if d['ns'] + c not in dep_classes:
                        dep_classes.append(d['ns'] + c)
                for c in d.get('_ifaces', []):
                    if d['ns'] + c not in dep_ifaces:
                        dep_ifaces.append(d['ns'] + c)
                collect(d.get('deps', []))
        collect(deps)
        prev = None
        chain_of = {}
        for cl in classes:
            sc = snake(cl)
            D({'k': 'typedef_struct_fwd', 'name': P + cl, 'tag': '_' + P + cl}, f_typedefs)
            D({'k': 'typedef_struct_fwd', 'name': P + cl + 'Class', 'tag': '_' + P + cl + 'Class'}, f_typedefs)
            base = rng.choice(dep_classes) if (dep_classes and not prev and rng.random() < 0.6) else None
            parent_inst = ['named', P + prev] if prev else (['named', base] if base else GOBJ)
            parent_cls = ['named', P + prev + 'Class'] if prev else (['named', base + 'Class'] if base else GOBJCLASS)
            chain_of[cl] = ([P + prev] + chain_of[prev]) if prev else (([base] if base else []) + ['GObject'])
            if rng.random() < 0.2:
                # an intermediate type that no header describes: the nearest known ancestor becomes the parent
                chain_of[cl] = [P + 'Hidden' + cl + 'Base'] + chain_of[cl]
            D({'k': 'struct_def', 'tag': '_' + P + cl, 'members': [
                {'name': 'parent_instance', 'type': parent_inst},
                {'name': 'priv_%s' % sc, 'type': GPOINTER, 'private': rng.random() < 0.7}]}, f_structs, 3)
            vfs = rng.sample(['frob', 'changed', 'render', 'validate'], rng.randint(0, 3))
            invokers = []
            members = [{'name': 'parent_class', 'type': parent_cls}]
            for vf in vfs:
                members.append({'name': vf, 'type': ['ptr', ['func', rng.choice([['void'], ['named', 'gboolean']]),
                                                       [['self', ['ptr', ['named', P + cl]]], ['value', ['basic', 'int']]]]]})
                r_inv = rng.random()
                if r_inv < 0.6:      # the invoker method
                    D({'k': 'function', 'name': '%s_%s_%s' % (p, sc, vf), 'ret': ['void'],
                       'params': [['self', ['ptr', ['named', P + cl]]], ['value', ['basic', 'int']]]}, rng.choice(apis))
                    invokers.append(vf)
                elif r_inv < 0.8 and want_blocks:
                    # an invoker under another name, tied to its slot by the (virtual) annotation
                    inv = D({'k': 'function', 'name': '%s_%s_do_%s' % (p, sc, vf), 'ret': ['void'],
                             'params': [['self', ['ptr', ['named', P + cl]]], ['value', ['basic', 'int']]]}, rng.choice(apis))
                    block(['%s: (virtual %s)' % (inv['name'], vf), '@self: the object', '@value: (in): a value', '',
                           'Invokes the %s slot.' % vf], inv['file'])
                    invokers.append('do_' + vf)
            members.append({'name': 'padding', 'type': ['array', GPOINTER, 4]})
            D({'k': 'struct_def', 'tag': '_' + P + cl + 'Class', 'members': members}, f_structs, len(members) + 1)
            fn = get_type_fn(sc)
            for cname in rng.sample(['new', 'new_with_size', 'new_from_name', 'new_full'], rng.randint(1, 3)):
                params = {'new': [], 'new_with_size': [['size', ['basic', 'int']]], 'new_from_name': [['name', STRING_IN]],
                          'new_full': [['size', ['basic', 'int']], ['name', STRING_IN]]}[cname]
                ctor = D({'k': 'function', 'name': '%s_%s_%s' % (p, sc, cname), 'ret': ['ptr', ['named', P + cl]],
                          'params': params}, rng.choice(apis))
                if want_blocks and rng.random() < 0.5:
                    block(['%s:' % ctor['name']] + ['@%s: the %s' % (n, n) for n, _ in params] +
                          ['', 'Creates a %s.' % cl, '', 'Returns: (transfer full): a new #%s%s' % (P, cl)], ctor['file'])
            plist = rng.sample([('size', 'gint', 3, '0'), ('name', 'gchararray', 7, 'NULL'), ('active', 'gboolean', 1, 'FALSE'),
                                ('visible', 'gboolean', 3, 'TRUE'),
                                ('zoom-level', 'gdouble', 11, '1.000000'), ('owner', 'GObject', 3, None)], rng.randint(0, 4))
            props = ''
            for (n, t, fl, dv) in plist:
                props += '<property name="%s" type="%s" flags="%d"%s/>' % (n, t, fl, (' default-value="%s"' % dv) if dv else '')
                un = n.replace('-', '_')
                mark = len(decls)
                if t == 'gboolean':
                    # several methods the getter heuristics accept for one boolean property
                    # (get_x, is_x, and plain x for read-only ones): which one wins is decided by
                    # their weights, not by the order in which they are met
                    cands = ['get_' + un, 'is_' + un] + ([un] if not fl & 2 else [])
                    for mname in rng.sample(cands, rng.choice([0, 1, 2, 2, len(cands)])):
                        D({'k': 'function', 'name': '%s_%s_%s' % (p, sc, mname), 'ret': ['named', 'gboolean'],
                           'params': [['self', ['ptr', ['named', P + cl]]]]}, rng.choice(apis))
                    if fl & 2 and rng.random() < 0.6:
                        D({'k': 'function', 'name': '%s_%s_set_%s' % (p, sc, un), 'ret': ['void'],
                           'params': [['self', ['ptr', ['named', P + cl]]], [un, ['named', 'gboolean']]]}, rng.choice(apis))
                elif t in ('gint',) and rng.random() < 0.6:
                    ct = ['basic', 'int'] if t == 'gint' else ['named', 'gboolean']
                    D({'k': 'function', 'name': '%s_%s_get_%s' % (p, sc, un), 'ret': ct,
                       'params': [['self', ['ptr', ['named', P + cl]]]]}, rng.choice(apis))
                    if fl & 2:
                        D({'k': 'function', 'name': '%s_%s_set_%s' % (p, sc, un), 'ret': ['void'],
                           'params': [['self', ['ptr', ['named', P + cl]]], [un, ct]]}, rng.choice(apis))
                accessors = [d for d in decls[mark:] if d['k'] == 'function']
                getters = [d for d in accessors if '_set_' not in d['name']]
                setters = [d for d in accessors if '_set_' in d['name']]
                if t == 'gchararray' and rng.random() < 0.5:
                    # accessors under unrelated names, tied to the property by annotations only
                    g = D({'k': 'function', 'name': '%s_%s_dup_label' % (p, sc), 'ret': STRING_OUT,
                           'params': [['self', ['ptr', ['named', P + cl]]]]}, rng.choice(apis))
                    if want_blocks:
                        block(['%s: (get-property %s)' % (g['name'], n), '@self: the object', '', 'Gets it.', '',
                               'Returns: (transfer full): the %s' % n], g['file'])
                    if rng.random() < 0.5:
                        st = D({'k': 'function', 'name': '%s_%s_assign_label' % (p, sc), 'ret': ['void'],
                                'params': [['self', ['ptr', ['named', P + cl]]], ['label', STRING_IN]]}, rng.choice(apis))
                        if want_blocks:
                            block(['%s: (set-property %s)' % (st['name'], n), '@self: the object', '@label: the new value', '',
                                   'Sets it.'], st['file'])
                if want_blocks and rng.random() < 0.5:
                    anns = []
                    if t == 'GObject' and rng.random() < 0.6:
                        anns.append('(transfer %s)' % rng.choice(['none', 'full', 'floating']))
                    if t == 'GObject' and rng.random() < 0.4:
                        anns.append('(type %s%s)' % (P, cl))
                    if dv is not None and rng.random() < 0.3:
                        anns.append('(default-value %s)' % rng.choice(['42', 'NULL', 'TRUE']))
                    if getters and rng.random() < 0.5:
                        anns.append('(getter %s)' % rng.choice(getters)['name'][len('%s_%s_' % (p, sc)):])
                    if setters and rng.random() < 0.5:
                        anns.append('(setter %s)' % rng.choice(setters)['name'][len('%s_%s_' % (p, sc)):])
                    if rng.random() < 0.2:
                        anns.append('(attributes org.example.prop=%s)' % un)
                    rng.shuffle(anns)
                    block(['%s%s:%s:%s' % (P, cl, n, (' ' + ' '.join(anns)) if anns else ''), '', 'The %s property.' % n] +
                          (['', rng.choice(['Since: 1.2', 'Since: 1.4: was private before', 'Stability: Unstable',
                                            'Deprecated: 2.0: Use something else'])] if rng.random() < 0.4 else []), f_typedefs)
            slist = rng.sample(['changed', 'activated', 'about-to-finish', 'zapped'], rng.randint(0, 3))
            sigs = ''
            for sn in slist:
                extra = rng.choice(['', '<param type="gint"/>', '<param type="gchararray"/><param type="GObject"/>'])
                sigs += '<signal name="%s" return="%s" when="%s"%s>%s</signal>' % (
                    sn, rng.choice(['void', 'gboolean']), rng.choice(['first', 'last', 'cleanup']),
                    rng.choice(['', ' detailed="1"', ' action="1"', ' no-recurse="1"']), extra)
                if want_blocks and rng.random() < 0.5:
                    em = ''
                    if rng.random() < 0.5:
                        # (an emitter with as many parameters as the signal, one or more, makes the scanner's
                        # emitter check index past the method's parameter list - a crash outside the properties
                        # decided here, so those combinations are not generated)
                        cands = list(invokers) if 'gint' not in extra else []
                        if rng.random() < 0.6:
                            en_ = 'emit_' + sn.replace('-', '_')
                            if not any(d.get('name') == '%s_%s_%s' % (p, sc, en_) for d in decls):
                                D({'k': 'function', 'name': '%s_%s_%s' % (p, sc, en_), 'ret': ['void'],
                                   'params': [['self', ['ptr', ['named', P + cl]]]]}, rng.choice(apis))
                            cands.append(en_)
                        if cands:
                            em = ' (emitter %s)' % rng.choice(cands)
                    tl = ['%s%s::%s:%s' % (P, cl, sn, em), '@object: the emitter']
                    if 'gint' in extra:
                        tl.append(rng.choice(['@p0: a number', '@number: (type guint): a number', '@count: a count']))
                    elif 'gchararray' in extra:
                        tl.append(rng.choice(['@text: (nullable): some text', '@text: some text']))
                        if rng.random() < 0.7:      # else: fewer names than parameters (annotations ignored, with a warning)
                            tl.append(rng.choice(['@source: (type %s%s) (transfer none): where from' % (P, cl), '@source: where from']))
                    block(tl + ['', 'Emitted sometimes.'] + (['', 'Returns: %sTRUE to stop' % rng.choice(['', '(skip): '])]
                                                              if rng.random() < 0.3 else []), f_typedefs)
            impl = ''.join('<implements name="%s%s"/>' % (P, i) for i in sorted(ifaces, reverse=True) if rng.random() < 0.7)
            impl += ''.join('<implements name="%s"/>' % i for i in dep_ifaces if rng.random() < 0.5)
            if dep_classes and rng.random() < 0.5:
                props += '<property name="peer" type="%s" flags="3"/>' % rng.choice(dep_classes)
            parents = ','.join(chain_of[cl])
            dump[fn] = '<class name="%s%s" get-type="%s" parents="%s"%s>%s%s%s</class>' % (
                P, cl, fn, parents, ' abstract="1"' if rng.random() < 0.2 else '', impl, props, sigs)
            if want_blocks and rng.random() < 0.6:
                block(['%s%s:' % (P, cl), '', 'A %s object.' % cl.lower()] + (['', 'Since: 1.2'] if rng.random() < 0.5 else []), f_typedefs)
                if rng.random() < 0.3:
                    type_section(P + cl)
            if rng.random() < 0.5:
                en = cl + 'Error'
                base = '%s_%s_ERROR' % (p.upper(), sc.upper())
                D({'k': 'typedef_enum', 'name': P + en, 'members': [[base + '_FAILED', 0], [base + '_BUSY', 1]], 'flags': False}, f_types, 3)
                qfn = '%s_%s_error_quark' % (p, sc)
                D({'k': 'function', 'name': qfn, 'ret': ['named', 'GQuark'], 'params': []}, rng.choice(apis))
                quarks[qfn] = '<error-quark function="%s" domain="%s-%s-error-quark"/>' % (qfn, p, sc.replace('_', '-'))
            prev = cl
        # error domains that belong to no class: the quark function stays a namespace function and is
        # paired with its enumeration by name (registered enumerations first, then any enumeration)
        for en in rng.sample(['Parse', 'Codec', 'Net'], rng.choice([0, 0, 1, 2])):
            base = '%s_%s_ERROR' % (p.upper(), en.upper())
            ename = P + en + 'Error'
            D({'k': 'typedef_enum', 'name': ename, 'members': [[base + '_FAILED', 0], [base + '_AGAIN', 1], [base + '_DENIED', 2]],
               'flags': False}, f_types, 4)
            qfn = '%s_%s_error_quark' % (p, en.lower())
            D({'k': 'function', 'name': qfn, 'ret': ['named', 'GQuark'], 'params': []}, rng.choice(apis))
            quarks[qfn] = '<error-quark function="%s" domain="%s-%s-error"/>' % (qfn, p, en.lower())
            if rng.random() < 0.5:
                registered_errors.append(ename)
        # async / finish / sync triples on the first class (needs the Gio stand-in)
        if classes and rng.random() < 0.6:
            cl = classes[0]
            sc = snake(cl)
            SELF = ['self', ['ptr', ['named', P + cl]]]
            for verb in rng.sample(['load', 'save', 'connect'], rng.randint(1, 2)):
                parts = rng.sample(['async', 'finish', 'sync'], rng.randint(2, 3))
                # naming conventions the pairing heuristics know: x_async/x_finish/x and x/x_finish/x_sync
                suffixed = rng.random() < 0.6
                aname = verb + ('_async' if suffixed else '')
                sname = verb if (suffixed and rng.random() < 0.7) else verb + '_sync'
                explicit = want_blocks and rng.random() < 0.3
                if explicit:
                    # names outside the conventions, tied together by annotations only
                    aname, fname, sname = 'begin_' + verb, 'end_' + verb, verb + '_now'
                else:
                    fname = verb + '_finish'
                if 'async' in parts:
                    fa = D({'k': 'function', 'name': '%s_%s_%s' % (p, sc, aname), 'ret': ['void'],
                            'params': [SELF, ['cancellable', ['ptr', ['named', 'GCancellable']]],
                                       ['callback', ['named', 'GAsyncReadyCallback']], ['user_data', GPOINTER]]}, rng.choice(apis))
                    if explicit:
                        anns = []
                        if 'finish' in parts:
                            anns.append('(finish-func %s)' % fname)
                        if 'sync' in parts and rng.random() < 0.7:
                            anns.append('(sync-func %s)' % sname)
                        block(['%s: %s' % (fa['name'], ' '.join(anns)), '@self: the object', '@cancellable: (nullable): a cancellable',
                               '@callback: (scope async): the callback', '@user_data: data for @callback', '', 'Starts it.'], fa['file'])
                if 'finish' in parts:
                    D({'k': 'function', 'name': '%s_%s_%s' % (p, sc, fname), 'ret': ['named', 'gboolean'],
                       'params': [SELF, ['result', ['ptr', ['named', 'GAsyncResult']]],
                                  ['error', ['ptr', ['ptr', ['named', 'GError']]]]]}, rng.choice(apis))
                if 'sync' in parts:
                    out = [['count', ['ptr', ['basic', 'int']]]] if rng.random() < 0.3 else []
                    fs = D({'k': 'function', 'name': '%s_%s_%s' % (p, sc, sname), 'ret': ['named', rng.choice(['gboolean', 'gboolean', 'gint'])],
                            'params': [SELF, ['cancellable', ['ptr', ['named', 'GCancellable']]]] + out +
                                      [['error', ['ptr', ['ptr', ['named', 'GError']]]]]}, rng.choice(apis))
                    if explicit and 'async' in parts and rng.random() < 0.7:
                        block(['%s: (async-func %s)' % (fs['name'], aname), '@self: the object', '@cancellable: (nullable): a cancellable'] +
                              (['@count: (out): how many'] if out else []) + ['', 'Does it now.', '', 'Returns: whether it worked'], fs['file'])
        # an instantiatable fundamental type with its own reference counting and GValue functions
        if rng.random() < 0.3:
            fn = get_type_fn('mini')
            D({'k': 'typedef_struct_fwd', 'name': P + 'Mini', 'tag': '_' + P + 'Mini'}, f_typedefs)
            D({'k': 'struct_def', 'tag': '_' + P + 'Mini', 'members': [
                {'name': 'instance', 'type': ['named', 'GTypeInstance']},
                {'name': 'refcount', 'type': ['basic', 'int']}]}, f_structs, 3)
            MINI = ['ptr', ['named', P + 'Mini']]
            for mname, ret, params in rng.sample([('ref', MINI, [['self', MINI]]), ('unref', ['void'], [['self', MINI]]),
                                                  ('value_set', ['void'], [['value', ['ptr', ['named', 'GValue']]], ['self', MINI]]),
                                                  ('value_get', MINI, [['value', ['ptr', ['const', ['named', 'GValue']]]]]),
                                                  ('new', MINI, [])], rng.randint(2, 5)):
                D({'k': 'function', 'name': '%s_mini_%s' % (p, mname), 'ret': ret, 'params': params}, rng.choice(apis))
            dump[fn] = '<fundamental name="%sMini" get-type="%s" instantiatable="1"%s/>' % (
                P, fn, rng.choice(['', ' abstract="1"', ' final="1"']))
            if want_blocks and rng.random() < 0.7:
                anns = rng.sample(['(ref-func %s_mini_ref)' % p, '(unref-func %s_mini_unref)' % p,
                                   '(set-value-func %s_mini_value_set)' % p, '(get-value-func %s_mini_value_get)' % p], rng.randint(1, 4))
                block(['%sMini: %s' % (P, ' '.join(anns)), '', 'A small reference-counted thing.'], f_typedefs)
        # a boxed type and a pointer type without a structure in the scanned headers
        if rng.random() < 0.4:
            fn = get_type_fn('hidden')
            dump[fn] = '<boxed name="%sHidden" get-type="%s"/>' % (P, fn)
            for mname in rng.sample(['new', 'copy', 'free', 'peek'], rng.randint(1, 3)):
                D({'k': 'function', 'name': '%s_hidden_%s' % (p, mname),
                   'ret': ['ptr', ['named', P + 'Hidden']] if mname in ('new', 'copy') else ['void'],
                   'params': [] if mname == 'new' else [['self', ['ptr', ['named', P + 'Hidden']]]]}, rng.choice(apis))
        if rng.random() < 0.25:
            fn = get_type_fn('cookie')
            dump[fn] = '<pointer name="%sCookie" get-type="%s"/>' % (P, fn)
            D({'k': 'typedef_struct_fwd', 'name': P + 'Cookie', 'tag': '_' + P + 'Cookie'}, f_typedefs)
        # some plain records become boxed types, some enums get a GType
        for r in records:
            d = [x for x in decls if x.get('name') == P + r and x['k'] in ('typedef_struct_fwd', 'typedef_struct')]
            if d and not d[0].get('union') and rng.random() < 0.6:
                fn = get_type_fn(snake(r))
                dump[fn] = '<boxed name="%s%s" get-type="%s"/>' % (P, r, fn)
        for d in [x for x in decls if x['k'] == 'typedef_enum' and (not x['name'].endswith('Error') or x['name'] in registered_errors)]:
            if rng.random() < 0.6 or x_is_error(d):
                fn = get_type_fn(snake(d['name'][len(P):]))
                listed = d['members']
                if len(listed) > 2 and rng.random() < 0.4:
                    # the registered value table leaves out some enumerators of the header
                    # (FIRST/LAST aliases, counters): only registered ones are described
                    listed = [m for m in listed if rng.random() < 0.5] or listed[:1]
                mem = ''.join('<member name="%s" nick="%s" value="%d"/>' % (i, i.split('_')[-1].lower(), v) for i, v in listed)
                dump[fn] = '<%s name="%s" get-type="%s">%s</%s>' % ('flags' if d['flags'] else 'enum', d['name'], fn, mem,
                                                                    'flags' if d['flags'] else 'enum')

    dup_blocks = False
    if main and want_blocks and cfiles and comments and rng.random() < 0.15:
        # the same identifier documented twice, differently (in a header and again in a .c file): the
        # block that arrives last wins, so the ORDER of blocks matters here by design - such jobs are
        # only run in their one given order (scansim.gen_variants), under different hash seeds and
        # cache histories
        import re as _re
        for c in rng.sample(comments, min(len(comments), rng.randint(1, 3))):
            first = c[0].split('\n')[1]
            m = _re.match(r' \* ([A-Za-z_][A-Za-z0-9_.:]*):', first)
            if not m or m.group(1).startswith('SECTION'):
                continue
            if len(cfiles) >= 2 and rng.random() < 0.6:
                # ... in two source files (per-platform back-ends documenting the same function)
                for n_, cf in enumerate(cfiles[:2]):
                    body = '/**\n * %s:\n *\n * Documented again in source file %d.\n *\n * Since: 9.%d\n */' % (m.group(1), n_, n_)
                    comments.append([body, cf, lines.take(cf, 7)])
            else:
                block(['%s:' % m.group(1), '', 'The same thing, documented once more, differently.', '',
                       'Since: 9.9', 'Stability: Private'], rng.choice(files))
            dup_blocks = True
    job = {'ns': nsname, 'version': '1.0', 'id_prefixes': [P], 'sym_prefixes': [p],
           'includes': ['%s-%s' % (d['ns'], d['version']) for d in deps],
           'options': [], 'file_order': files, 'order_before': order_before, 'decls': decls,
           'comments': comments, 'deps': deps, '_records': records, '_foreign_types': foreign}
    if gobject:
        job['_classes'], job['_ifaces'] = classes, ifaces
    if main and rng.random() < 0.2:
        # two symbol prefixes of which one extends the other (gtk / gtk_x style): for a symbol both
        # match, the one named first on the command line wins - whichever that is, on every run
        sp = [p, p + '_ex']
        rng.shuffle(sp)
        job['sym_prefixes'] = sp
        f = rng.choice(apis)
        for nm in rng.sample(['frob', 'init', 'get_default', 'version'], rng.randint(1, 3)):
            decls.append({'k': 'function', 'name': '%s_ex_%s' % (p, nm), 'ret': ['basic', 'int'], 'params': [],
                          'file': f, 'line': lines.take(f)})
        decls.append({'k': 'define', 'name': '%s_EX_LIMIT' % p.upper(), 'value': 7, 'file': f, 'line': lines.take(f)})
        if rng.random() < 0.5:
            ip = [P, P + 'Ex']
            rng.shuffle(ip)
            job['id_prefixes'] = ip
            decls.append({'k': 'typedef_struct', 'name': P + 'ExGlyph', 'tag': '_' + P + 'ExGlyph',
                          'members': [{'name': 'code', 'type': ['basic', 'int'], 'private': False}],
                          'file': f_typedefs, 'line': lines.take(f_typedefs, 2)})
            decls.append({'k': 'function', 'name': '%s_ex_glyph_measure' % p, 'ret': ['basic', 'int'],
                          'params': [['glyph', ['ptr', ['named', P + 'ExGlyph']]]], 'file': f, 'line': lines.take(f)})
    if crayon:
        job['includes'] = job['includes'] + ['Crayon-1.0']
    if dup_blocks:
        job['fixed_order'] = True
    if gobject:
        job['includes'] = ['Gio-2.0'] + job['includes']
        job['dump'] = dump
        job['error_quarks'] = quarks
        job['program'] = 'bin/dumper'
    opt = job['options']
    if rng.random() < 0.6:
        opt.append('--warn-all')
    if rng.random() < 0.5:
        opt.append('--c-include=%s.h' % p)
    if rng.random() < 0.4:
        opt.append('--c-include=%s-extra.h' % p)
    if rng.random() < 0.5:
        opt.append('--pkg-export=%s-1.0' % p)
    if rng.random() < 0.3:
        opt.append('--pkg-export=%s-extras-1.0' % p)
    if rng.random() < 0.3:
        opt.append('--doc-format=gi-docgen')
    return job


def gen_job(rng, thorough):
    """Main namespace plus 0-3 dependencies in a chain and/or diamond (Main->B->A, Main->A)."""
    shape = rng.choice(['none', 'one', 'chain', 'diamond', 'diamond', 'fan', 'join'])
    a = b = c = None
    deps = []
    if shape != 'none':
        a = gen_namespace(rng, 'Dpa', False, [], want_blocks=rng.random() < 0.5, main=False, crayon=rng.random() < 0.35,
                          gobject=rng.random() < 0.35)
    if shape == 'one':
        deps = [a]
    elif shape == 'chain':
        b = gen_namespace(rng, 'Dpb', False, [a], want_blocks=False, main=False)
        deps = [b]                       # Main -> B -> A (A only through B)
    elif shape == 'diamond':
        b = gen_namespace(rng, 'Dpb', False, [a], want_blocks=False, main=False)
        deps = [b, a]
    if shape in ('chain', 'diamond') and rng.random() < 0.35:
        # B and the A it includes both answer to "Dp" and both describe DpShared: which one a
        # `DpShared *` of the main namespace resolves to follows the order in which the two were
        # registered - which must be the same whether they were parsed or came from the cache
        a['id_prefixes'] = ['Dpa', 'Dp']
        b['id_prefixes'] = ['Dpb', 'Dp']
        for j, tag in ((a, 'a'), (b, 'b')):
            f = [x for x in j['file_order'] if x.endswith('-typedefs.h')][0]
            j['decls'].append({'k': 'typedef_struct_fwd', 'name': 'DpShared', 'tag': '_DpShared' + tag,
                               'file': f, 'line': 900})
        b['_records'] = b['_records'] + ['-shared:DpShared']
        if shape == 'diamond':
            a['_records'] = a['_records'] + ['-shared:DpShared']
    elif shape == 'fan':
        b = gen_namespace(rng, 'Dpb', False, [a], want_blocks=False, main=False)
        c = gen_namespace(rng, 'Dpc', False, [a], want_blocks=False, main=False)
        deps = [c, b, a]
    elif shape == 'join':
        # a dependency with two includes of its own: the order in which the transformer meets
        # A and B then depends on the iteration order of C's include *set*
        b = gen_namespace(rng, 'Dpb', False, [], want_blocks=False, main=False)
        if rng.random() < 0.6:
            # A also answers to the shorter identifier prefix "Dp", and both A and B describe a C
            # type called DpbShared (as GLib/GObject/Gio share "G" and have moved types between
            # them): which of the two a `DpbShared *` resolves to must not depend on the order in
            # which the transformer happened to meet A and B
            a['id_prefixes'] = ['Dpa', 'Dp']
            shared = 'DpbShared'
            if rng.random() < 0.5:
                # ... or both answer to "Dp" and the type is called DpShared (a compatibility copy
                # of a type that moved from one library to the other): then neither matching
                # prefix is longer and only a deterministic registration order of the two
                # namespaces can make the choice stable
                b['id_prefixes'] = ['Dpb', 'Dp']
                shared = 'DpShared'
            for j, tag in ((a, 'a'), (b, 'b')):
                f = [x for x in j['file_order'] if x.endswith('-typedefs.h')][0]
                j['decls'].append({'k': 'typedef_struct_fwd', 'name': shared, 'tag': '_' + shared + tag,
                                   'file': f, 'line': 900})
            a['_records'] = a['_records'] + ['-shared:' + shared]
        c = gen_namespace(rng, 'Dpc', False, [a, b], want_blocks=False, main=False)
        deps = [c] if rng.random() < 0.5 else [c, b, a]
    gobject = rng.random() < 0.55
    main = gen_namespace(rng, rng.choice(['Vfa', 'Qx', 'Mylib']), thorough, deps, gobject=gobject, crayon=rng.random() < 0.12)
    main['shape'] = shape
    main['gobject'] = gobject
    return main


def all_namespaces(job):
    """Dependencies first (each once), main last."""
    seen, out = set(), []

    def visit(j):
        for d in j['deps']:
            visit(d)
        if j['ns'] not in seen:
            seen.add(j['ns'])
            out.append(j)
    visit(job)
    return out


def valid_file_orders(job, rng, n):
    """n random command-line orders that respect order_before (declaration before use)."""
    files = job['file_order']
    cons = [tuple(x) for x in job['order_before']]
    out = []
    for _ in range(n * 4):
        perm = files[:]
        rng.shuffle(perm)
        pos = {f: i for i, f in enumerate(perm)}
        # repair: move offenders after their prerequisite (bounded number of passes)
        for _ in range(len(files) * 2):
            bad = [(a, b) for a, b in cons if pos[a] > pos[b]]
            if not bad:
                break
            a, b = bad[0]
            perm.remove(b)
            perm.insert(perm.index(a) + 1, b)
            pos = {f: i for i, f in enumerate(perm)}
        if all(pos[a] < pos[b] for a, b in cons) and perm not in out:
            out.append(perm)
        if len(out) >= n:
            break
    return out
