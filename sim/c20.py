"""Check driver for property C20 (engine E3 xmlsim).

    python sim/c20.py [--tier quick|thorough] [--replay FILE]
"""
import argparse
import json
import os
import sys
import time

sys.path.insert(0, os.path.dirname(os.path.dirname(os.path.abspath(__file__))))
from sim import core          # noqa: E402

PROP = 'C20'

ASSUMPTIONS = [
    'strings are drawn from XML 1.0 Char; no carriage return in element text or comments (XML normalises it, as the property states); no "--" inside comments (not representable)',
    'element and attribute names are XML Names (optionally with one colon), unique per element; raw pyexpat without namespace processing is the independent parser',
    'the simulated writing code raises only inside tagcontext bodies, never between a bare push_tag and its pop_tag (the writer promises nothing there)',
    'exploration by seeded generation with shrinking (Hypothesis); a clean batch is evidence, not proof',
]


def cmd_replay(path):
    from sim import xmlsim
    core.repo_import_path()
    doc = json.load(open(path))
    try:
        xmlsim.check_document(doc['doc'])
    except xmlsim.Mismatch as e:
        print(str(e)[:3000])
        print('VIOLATION property=%s replay=%s' % (PROP, path))
        return core.EXIT_VIOLATION
    except Exception as e:
        print('writer raised %r' % (e,))
        print('VIOLATION property=%s replay=%s' % (PROP, path))
        return core.EXIT_VIOLATION
    print('replay did NOT reproduce a violation')
    return core.EXIT_HELD


def main():
    ap = argparse.ArgumentParser()
    ap.add_argument('--tier', default=None)
    ap.add_argument('--replay', default=None)
    ap.add_argument('--workers', type=int, default=None)
    ap.add_argument('--examples', type=int, default=None)
    a = ap.parse_args()
    core.ensure_hashseed('0')
    if a.replay:
        return cmd_replay(a.replay)
    from sim import xmlsim
    tier = a.tier or core.tier()
    thorough = tier == 'thorough'
    root = core.verif_seed()
    t0 = time.monotonic()
    nworkers = a.workers or (128 if thorough else 16)
    examples = a.examples or (40000 if thorough else 5000)
    depth = 4 if thorough else 3
    jobs = int(os.environ.get('VERIF_JOBS', core.ncpu()))
    print('[C20] engine=xmlsim tier=%s VERIF_SEED=%d hypothesis-runs=%d x %d examples jobs=%d' % (
        tier, root, nworkers, examples, jobs), flush=True)
    try:
        results = core.pmap(xmlsim.worker, [(root, i, examples, depth) for i in range(nworkers)], jobs=jobs,
                            chunk=1, wall_per_chunk=3000)
    except core.WorkerDied as e:
        print('HARNESS-FAILURE %s' % e)
        return core.EXIT_HARNESS
    herr = [r for r in results if r['harness_error']]
    if herr:
        for r in herr[:3]:
            print('HARNESS-FAILURE %s' % r['harness_error'][:2000])
        return core.EXIT_HARNESS
    # determinism: the first Hypothesis run repeated must visit the same examples
    again = xmlsim.worker((root, 0, min(examples, 60), depth))
    first = xmlsim.worker((root, 0, min(examples, 60), depth))
    if again['skeletons'] != first['skeletons'] or again['examples'] != first['examples']:
        print('HARNESS-FAILURE determinism: the same derived seed generated different examples')
        return core.EXIT_HARNESS

    known, fixed = core.load_known()
    exit_code = core.EXIT_HELD
    reported, known_hits, seen = [], [], set()
    for r in results:
        v = r['violation']
        if not v:
            continue
        sig = v['clause'] + '@' + xmlsim.signature_of(v)
        if sig in seen:
            continue
        seen.add(sig)
        doc = {'engine': 'xmlsim', 'property': PROP, 'verif_seed': root, 'run_index': r['index'], 'seed': r['seed'],
               'doc': v['doc'], 'violation': {'clause': v['clause'], 'signature': sig, 'message': v['message']}}
        path = core.write_replay(PROP, '%d-%d' % (root, r['index']), doc)
        import subprocess
        env = dict(os.environ, PYTHONHASHSEED='5')
        p = subprocess.run([sys.executable, os.path.abspath(__file__), '--replay', path], env=env,
                           stdout=subprocess.PIPE, stderr=subprocess.PIPE, text=True, timeout=300)
        if p.returncode != core.EXIT_VIOLATION:
            print('HARNESS-FAILURE replay of %s in a fresh interpreter did not reproduce:\n%s%s' % (path, p.stdout[-800:], p.stderr[-800:]))
            return core.EXIT_HARNESS
        k = core.match_known(known, PROP, sig)
        if k is not None:
            print('KNOWN-FINDING: property=%s %s' % (PROP, k['line'][6:].strip()))
            known_hits.append(sig)
            continue
        exit_code = core.EXIT_VIOLATION
        reported.append({'signature': sig, 'replay': path})
        print('violation %s (shrunk by Hypothesis)' % sig)
        print(v['message'][:1500])
        print('VIOLATION property=%s replay=%s' % (PROP, path))

    skel, nskel = set(), set()
    tot = {'examples': 0, 'raises': 0, 'boom_escaped_root': 0, 'wrapped': 0}
    sample = None
    for r in results:
        skel.update(r['skeletons'])
        nskel.update(r['nontrivial_skeletons'])
        for k in tot:
            tot[k] += r[k]
        if sample is None and r['sample'] is not None:
            sample = r['sample']
    wall = time.monotonic() - t0
    cov = {
        'evaluations': tot['examples'],
        'distinct_nontrivial': len(nskel),
        'rule': 'one evaluation = one generated document: a tree of writer operations (tagcontext, push/pop, write_tag, '
                'comment, escaped text line) with raise points and catch points, driven against the real XMLWriter, parsed '
                'back with raw pyexpat and compared with a tree model including exact character data; distinct = distinct '
                'operation/exception skeleton (operation kinds, nesting, attribute counts, raise/catch positions, whitespace '
                'mode); non-trivial = the document contains at least one raise inside an open tagcontext or at least one '
                'attribute list that the writer wrapped over several lines',
        'samples': [sample] if sample is not None else [{'note': 'no small sample with both a raise and a wrapped tag in this run'}],
        'distinct_skeletons_all': len(skel),
        'documents_with_exception_inside_tagcontext': tot['raises'],
        'documents_where_exception_unwound_the_root': tot['boom_escaped_root'],
        'documents_with_wrapped_attribute_lists': tot['wrapped'],
        'longest_document_chars': max(r['maxlen'] for r in results),
        'hypothesis_runs': len(results), 'examples_per_run': examples,
        'examples_per_hour': int(tot['examples'] / wall * 3600),
        'simulated_time': 'not applicable: the writer has no clock, I/O or concurrency; the simulated party is the caller',
        'fault_kinds': {'exception raised by the writing code inside open tagcontext bodies': tot['raises']},
        'real_components': ['giscanner/xmlwriter.py (XMLWriter, build_xml_tag, collect_attributes)', 'xml.sax.saxutils.escape/quoteattr'],
        'stub_components': ['the caller (seeded driver that raises and catches)'],
        'independent_parser': 'pyexpat %s, no namespace processing' % '.'.join(map(str, __import__('xml.parsers.expat').parsers.expat.version_info)),
        'known_findings_matched': known_hits, 'fixed_findings_in_force': [f for f in fixed if 'property=C20' in f],
        'violations_reported': reported,
    }
    core.write_evidence(PROP, tier, root, cov, ASSUMPTIONS, wall, len(reported))
    print('[C20] documents=%d distinct_nontrivial=%d with-raise=%d wrapped=%d violations=%d wall=%.1fs -> exit %d' % (
        tot['examples'], len(nskel), tot['raises'], tot['wrapped'], len(reported), wall, exit_code), flush=True)
    return exit_code


if __name__ == '__main__':
    try:
        code = main()
    except Exception:
        import traceback
        traceback.print_exc()
        print('HARNESS-FAILURE unexpected exception in the check driver')
        code = core.EXIT_HARNESS
    sys.stdout.flush()
    os._exit(code) if code else sys.exit(0)
