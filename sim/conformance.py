"""Simulator conformance self-test (DESIGN.md §3.11): seeded single-process call scripts are
executed on SimFS and on a real scratch directory; results, errnos, sizes, directory contents
and *which calls change which mtimes* must agree.  The re-implemented shutil.move is compared
with the real one at outcome level (same device, and across devices when the sandbox has two
writable file systems).  A mismatch is a harness failure (exit 2), never a verdict."""
import errno
import hashlib
import inspect
import os
import random
import shutil
import tempfile

from . import core
from .simfs import SIM_ROOT, SimFS, World, Seam, RUN

NAMES = ['a', 'b', 'c', 'd/x', 'd/y', 'd']
T0 = 1_500_000_000 * 10**9


class _Always(object):
    def decide(self, world, runnable):
        return runnable[0].slot, RUN


def gen_script(rng, n):
    ops = []
    for _ in range(n):
        r = rng.random()
        nm = rng.choice(NAMES)
        if r < 0.22:
            flags = rng.choice(['r', 'wt', 'wx', 'rw', 'wa', 'w'])
            ops.append(('open', nm, flags, rng.randrange(4)))
        elif r < 0.38:
            ops.append(('write', rng.randrange(4), rng.randint(0, 40)))
        elif r < 0.52:
            ops.append(('read', rng.randrange(4), rng.randint(0, 50)))
        elif r < 0.60:
            ops.append(('close', rng.randrange(4)))
        elif r < 0.68:
            ops.append(('rename', nm, rng.choice(NAMES)))
        elif r < 0.75:
            ops.append(('unlink', nm))
        elif r < 0.82:
            ops.append(('stat', nm))
        elif r < 0.86:
            ops.append(('fstat', rng.randrange(4)))
        elif r < 0.90:
            ops.append(('listdir', rng.choice(['.', 'd', 'a'])))
        elif r < 0.93:
            ops.append(('mkdir', rng.choice(['d', 'e', 'a'])))
        elif r < 0.96:
            ops.append(('link', nm, rng.choice(NAMES)))
        elif r < 0.98:
            ops.append(('utime', nm, T0 + rng.randint(1, 1000) * 10**9))
        else:
            ops.append(('truncate', rng.randrange(4), rng.randint(0, 30)))
    return ops


FLAGS = {'r': os.O_RDONLY, 'wt': os.O_WRONLY | os.O_CREAT | os.O_TRUNC,
         'wx': os.O_WRONLY | os.O_CREAT | os.O_EXCL, 'rw': os.O_RDWR,
         'wa': os.O_WRONLY | os.O_CREAT | os.O_APPEND, 'w': os.O_WRONLY}


def run_script(osmod, base, ops, all_files):
    """Execute ops with the os-like module `osmod` under directory `base`.  Returns the list of
    observations."""
    fds = {}
    obs = []
    payload = bytes(range(65, 91)) * 4

    def P(n):
        return base + '/' + n

    def reset_mtimes():
        for n in all_files:
            try:
                st = osmod.stat(P(n))
            except OSError:
                continue
            if not (st.st_mode & 0o040000):
                osmod.utime(P(n), ns=(T0, T0))

    def changed():
        out = []
        for n in all_files:
            try:
                st = osmod.stat(P(n))
            except OSError:
                continue
            if not (st.st_mode & 0o040000) and st.st_mtime_ns != T0:
                out.append(n)
        return out

    for k, op in enumerate(ops):
        reset_mtimes()
        try:
            kind = op[0]
            if kind == 'open':
                slot = op[3]
                if slot in fds:
                    osmod.close(fds.pop(slot))
                fds[slot] = osmod.open(P(op[1]), FLAGS[op[2]], 0o644)
                res = 'fd'
            elif kind == 'write':
                res = osmod.write(fds[op[1]], payload[:op[2]]) if op[1] in fds else 'nofd'
            elif kind == 'read':
                res = osmod.read(fds[op[1]], op[2]) if op[1] in fds else 'nofd'
            elif kind == 'close':
                res = osmod.close(fds.pop(op[1])) if op[1] in fds else 'nofd'
            elif kind == 'rename':
                res = osmod.rename(P(op[1]), P(op[2]))
            elif kind == 'unlink':
                res = osmod.unlink(P(op[1]))
            elif kind == 'stat':
                st = osmod.stat(P(op[1]))
                isdir = bool(st.st_mode & 0o040000)
                res = ('dir',) if isdir else ('file', st.st_size, st.st_nlink)
            elif kind == 'fstat':
                if op[1] in fds:
                    st = osmod.fstat(fds[op[1]])
                    res = ('dir',) if st.st_mode & 0o040000 else ('file', st.st_size, st.st_nlink)
                else:
                    res = 'nofd'
            elif kind == 'listdir':
                res = sorted(osmod.listdir(P(op[1])))
            elif kind == 'mkdir':
                res = osmod.mkdir(P(op[1]))
            elif kind == 'link':
                res = osmod.link(P(op[1]), P(op[2]))
            elif kind == 'utime':
                res = osmod.utime(P(op[1]), ns=(op[2], op[2]))
            elif kind == 'truncate':
                res = osmod.ftruncate(fds[op[1]], op[2]) if op[1] in fds else 'nofd'
            else:
                res = 'unknown-op'
            obs.append((k, kind, 'ok', res, changed()))
        except OSError as e:
            obs.append((k, kind, 'err', errno.errorcode.get(e.errno, e.errno), changed()))
    for fd in fds.values():
        try:
            osmod.close(fd)
        except OSError:
            pass
    return obs


ALL_FILES = ['a', 'b', 'c', 'd/x', 'd/y', 'e', 'd']


def run_on_sim(ops):
    fs = SimFS()
    world = World(fs, {})
    ticks = iter(range(1, 10**9))
    world.clock_deltas = lambda: 1_000_000 + next(ticks)
    base = SIM_ROOT + '/conf'
    fs.makedirs(base)
    seam = Seam(world, '/x')
    out = {}

    def body(p):
        out['obs'] = run_script(seam.os, base, ops, ALL_FILES)
    world.spawn({}, body)
    world.run_until_quiescent(_Always(), step_cap=100000)
    p = world.procs[0]
    if p.outcome[0] != 'ok':
        raise RuntimeError('conformance script died on SimFS: %r' % (p.outcome,))
    return out['obs']


def run_on_real(ops, scratch):
    base = tempfile.mkdtemp(prefix='conf-', dir=scratch)
    try:
        return run_script(os, base, ops, ALL_FILES)
    finally:
        shutil.rmtree(base, ignore_errors=True)


def _move_outcome_sim(same_device, size, chunk, dst_exists):
    fs = SimFS()
    world = World(fs, {'copy_chunk': chunk})
    ticks = iter(range(1, 10**9))
    world.clock_deltas = lambda: 1_000_000 + next(ticks)
    a, b = SIM_ROOT + '/m1', SIM_ROOT + '/m2'
    if not same_device:
        fs.mounts[b] = 2
    fs.makedirs(a)
    fs.makedirs(b)
    seam = Seam(world, '/x')
    data = bytes(range(256)) * (size // 256 + 1)
    data = data[:size]
    out = {}

    def body(p):
        o = seam.os
        with seam.open(a + '/src', 'wb') as f:
            f.write(data)
        o.utime(a + '/src', ns=(T0, T0 + 5))
        o.chmod(a + '/src', 0o600)
        if dst_exists:
            with seam.open(b + '/dst', 'wb') as f:
                f.write(b'old')
        seam.shutil.move(a + '/src', b + '/dst')
        st = o.stat(b + '/dst')
        with seam.open(b + '/dst', 'rb') as f:
            got = f.read()
        out['r'] = (got == data, st.st_mtime_ns, st.st_mode & 0o777, o.path.exists(a + '/src'),
                    sorted(o.listdir(a)), sorted(o.listdir(b)))
    world.spawn({}, body)
    world.run_until_quiescent(_Always(), step_cap=1000000)
    if world.procs[0].outcome[0] != 'ok':
        raise RuntimeError('sim move died: %r' % (world.procs[0].outcome,))
    return out['r'], [ev[3] for ev in world.log if ev[3] == 'rename' and ev[6] == 'EEXDEV']


def _move_outcome_real(dir_a, dir_b, size, dst_exists):
    a = tempfile.mkdtemp(prefix='mv-', dir=dir_a)
    b = tempfile.mkdtemp(prefix='mv-', dir=dir_b)
    try:
        data = (bytes(range(256)) * (size // 256 + 1))[:size]
        with open(a + '/src', 'wb') as f:
            f.write(data)
        os.utime(a + '/src', ns=(T0, T0 + 5))
        os.chmod(a + '/src', 0o600)
        if dst_exists:
            with open(b + '/dst', 'wb') as f:
                f.write(b'old')
        shutil.move(a + '/src', b + '/dst')
        st = os.stat(b + '/dst')
        with open(b + '/dst', 'rb') as f:
            got = f.read()
        return (got == data, st.st_mtime_ns, st.st_mode & 0o777, os.path.exists(a + '/src'),
                sorted(os.listdir(a)), sorted(os.listdir(b)))
    finally:
        shutil.rmtree(a, ignore_errors=True)
        shutil.rmtree(b, ignore_errors=True)


class _KillAt(object):
    """Runs the single process and kills it at the n-th call of the given kind (optionally in the
    middle of it, after `mid` bytes)."""

    def __init__(self, call, nth, mid=None):
        self.call, self.nth, self.mid, self.seen = call, nth, mid, 0

    def decide(self, world, runnable):
        from .simfs import Directive
        p = runnable[0]
        if p.pending[0] == self.call:
            self.seen += 1
            if self.seen == self.nth:
                return p.slot, (Directive('killmid', self.mid) if self.mid else Directive('kill'))
        return p.slot, RUN


def kill_semantics():
    """kill -9 as the simulator models it: completed system calls persist, user-space buffers are
    lost, nothing is written while the killed process unwinds (`with` blocks, buffered flushes,
    finally clauses), temp files stay behind."""
    problems = []
    for mid in (None, 10):
        fs = SimFS()
        world = World(fs, {'stdio_buffer': 64})
        world.clock_deltas = lambda: 1000
        base = SIM_ROOT + '/k'
        fs.makedirs(base)
        seam = Seam(world, '/x')
        reached = []

        def body(p):
            try:
                with seam.open(base + '/f', 'wb') as f:
                    f.write(b'A' * 64)        # 1st raw write (buffer full)
                    f.write(b'B' * 64)        # 2nd raw write: killed here
                    f.write(b'C' * 64)
                reached.append('after-with')
            finally:
                try:
                    seam.os.unlink(base + '/f')      # cleanup code of a killed process must not run effects
                except BaseException:
                    reached.append('finally-blocked')
                    raise
        world.spawn({}, body)
        world.run_until_quiescent(_KillAt('write', 2, mid), step_cap=1000)
        node = fs.lookup(base + '/f')
        want = 64 + (mid or 0)
        if world.procs[0].outcome != ('killed',):
            problems.append('kill semantics: outcome %r' % (world.procs[0].outcome,))
        if node is None or len(node.data) != want:
            problems.append('kill semantics (mid=%r): file has %r bytes, expected %d' % (
                mid, None if node is None else len(node.data), want))
        if 'after-with' in reached or 'finally-blocked' not in reached:
            problems.append('kill semantics: unwinding code had effects: %r' % (reached,))
    return problems


# sha256 of the CPython 3.12 sources the SimShutil transcription was made from
def shutil_fingerprint():
    src = ''.join(inspect.getsource(f) for f in (shutil.move, shutil.copy2, shutil.copyfile, shutil.copystat))
    return hashlib.sha256(src.encode()).hexdigest()[:16]


TRANSCRIBED_FROM = None     # filled in on first run; recorded in evidence


def run(root_seed, nscripts):
    problems = kill_semantics()
    scratch = tempfile.mkdtemp(prefix='verif-conf-')
    calls = 0
    try:
        for i in range(nscripts):
            rng = random.Random(core.derive_seed('conformance', 'simfs', root_seed, i))
            ops = gen_script(rng, rng.randint(5, 40))
            sim = run_on_sim(ops)
            real = run_on_real(ops, scratch)
            calls += len(ops)
            if sim != real:
                for s, r, op in zip(sim, real, ops):
                    if s != r:
                        problems.append('script %d op %r: SimFS %r, kernel %r' % (i, op, s, r))
                        break
        # shutil.move, same device
        moves = 0
        for size in (0, 1, 300, 70000):
            for dst_exists in (False, True):
                simr, _ = _move_outcome_sim(True, size, 4096, dst_exists)
                realr = _move_outcome_real(scratch, scratch, size, dst_exists)
                moves += 1
                if simr != realr:
                    problems.append('shutil.move same-device size=%d dst_exists=%s: sim %r real %r' % (size, dst_exists, simr, realr))
        cross = 'not available (no second writable file system); cross-device path checked against the CPython source it was transcribed from'
        shm = '/dev/shm'
        try:
            two_fs = os.path.isdir(shm) and os.access(shm, os.W_OK) and os.stat(shm).st_dev != os.stat(scratch).st_dev
        except OSError:
            two_fs = False
        if two_fs:
            cross = 'compared with the real shutil.move between %s and the scratch directory' % shm
            for size in (0, 1, 300, 70000):
                for dst_exists in (False, True):
                    simr, exdev = _move_outcome_sim(False, size, 64, dst_exists)
                    realr = _move_outcome_real(scratch, shm, size, dst_exists)
                    moves += 1
                    if not exdev:
                        problems.append('simulated cross-device rename did not raise EXDEV')
                    if simr != realr:
                        problems.append('shutil.move cross-device size=%d dst_exists=%s: sim %r real %r' % (size, dst_exists, simr, realr))
    finally:
        shutil.rmtree(scratch, ignore_errors=True)
    return {'problems': problems, 'scripts': nscripts, 'kill_semantics_checked': True, 'calls_compared': calls, 'shutil_moves_compared': moves,
            'cross_device_move': cross, 'interpreter_shutil_fingerprint': shutil_fingerprint()}
