"""SimFS: an in-memory POSIX-like file system, the per-process os/open/shutil/tempfile/glob
facades that the code under test sees, and the baton-passing scheduler that decides which
simulated process performs its pending system call next.

Nothing here draws random numbers or reads a real clock: every choice comes from the
`decider` object handed to World.run_epoch (see core.py / cachesim.py).
"""
import errno as _errno
import fnmatch as _fnmatch
import io as _io
import os as _real_os
import posixpath as _pp
import stat as _stat
import threading as _threading
import _thread

SIM_ROOT = '/SIM-d41d8cd9'     # must not exist on the real file system


class Killed(BaseException):
    """Raised inside a simulated process that the scheduler killed (kill -9)."""


class SeamGap(BaseException):
    """The code under test used a facade name that the simulator does not implement, or left
    the simulated world.  A harness failure (exit 2), never a verdict."""


class HarnessError(Exception):
    pass


def sim_oserror(code, path=None, path2=None):
    if path2 is not None:
        e = OSError(code, _real_os.strerror(code), path, None, path2)
    elif path is not None:
        e = OSError(code, _real_os.strerror(code), path)
    else:
        e = OSError(code, _real_os.strerror(code))
    e._sim = True
    return e


class SimStat(object):
    __slots__ = ('st_mode', 'st_ino', 'st_dev', 'st_nlink', 'st_uid', 'st_gid', 'st_size',
                 'st_mtime_ns', 'st_atime_ns', 'st_ctime_ns', 'st_blksize')

    def __init__(self, inode):
        self.st_mode = inode.mode | (_stat.S_IFDIR if inode.kind == 'd' else _stat.S_IFREG)
        self.st_ino = inode.ino
        self.st_dev = inode.dev
        self.st_nlink = inode.nlink
        self.st_uid = 1000
        self.st_gid = 1000
        self.st_size = len(inode.data) if inode.kind == 'f' else 4096
        self.st_mtime_ns = inode.mtime_ns
        self.st_atime_ns = inode.mtime_ns
        self.st_ctime_ns = inode.mtime_ns
        self.st_blksize = 4096

    st_mtime = property(lambda self: self.st_mtime_ns / 1e9)
    st_atime = property(lambda self: self.st_atime_ns / 1e9)
    st_ctime = property(lambda self: self.st_ctime_ns / 1e9)


class Inode(object):
    __slots__ = ('ino', 'dev', 'kind', 'data', 'entries', 'mtime_ns', 'mode', 'nlink', 'tag')

    def __init__(self, ino, dev, kind, mtime_ns, mode):
        self.ino = ino
        self.dev = dev
        self.kind = kind
        self.data = bytearray() if kind == 'f' else None
        self.entries = {} if kind == 'd' else None
        self.mtime_ns = mtime_ns
        self.mode = mode
        self.nlink = 0
        self.tag = {}          # shadow provenance, invisible to the code under test


class SimFS(object):
    """File system state + simulated clock.  All methods are atomic 'system calls'; who
    calls them when is decided by World."""

    def __init__(self, clock_gran_ns=1):
        self.now_ns = 1_000_000 * 10**9
        self.clock_gran_ns = clock_gran_ns
        self._next_ino = 2
        self.inodes = {}
        self.root = self._new_inode(1, 'd', 0o755)
        self.root.nlink = 1
        self.mounts = {}                 # normalised dir path -> dev
        self.dev_free = {}               # dev -> remaining bytes or absent (= unlimited)
        self._cwd = SIM_ROOT + '/cwd'

    @property
    def cwd(self):
        # the working directory belongs to the simulated process that is running (only one runs
        # at a time, on its own thread); the environment and the oracles use the default
        p = current_proc()
        return getattr(p, 'cwd', None) or self._cwd

    # -- helpers ---------------------------------------------------------------------
    def _new_inode(self, dev, kind, mode):
        ino = self._next_ino
        self._next_ino += 1
        node = Inode(ino, dev, kind, self.stamp(), mode)
        self.inodes[ino] = node
        return node

    def stamp(self):
        g = self.clock_gran_ns
        return self.now_ns if g <= 1 else (self.now_ns // g) * g

    def tick(self, delta_ns):
        self.now_ns += delta_ns

    def norm(self, path):
        if isinstance(path, bytes):
            path = path.decode('utf-8')
        path = _real_os.fspath(path)
        if not path.startswith('/'):
            path = _pp.join(self.cwd, path)
        return _pp.normpath(path)

    def _walk(self, path):
        """-> (parent inode, name, inode or None).  Raises ENOENT/ENOTDIR for bad prefixes."""
        path = self.norm(path)
        if path == '/':
            return None, '', self.root
        parts = path.strip('/').split('/')
        cur = self.root
        for comp in parts[:-1]:
            nxt_ino = cur.entries.get(comp)
            if nxt_ino is None:
                raise sim_oserror(_errno.ENOENT, path)
            cur = self.inodes[nxt_ino]
            if cur.kind != 'd':
                raise sim_oserror(_errno.ENOTDIR, path)
        name = parts[-1]
        ino = cur.entries.get(name)
        return cur, name, (self.inodes[ino] if ino is not None else None)

    def lookup(self, path):
        try:
            _, _, node = self._walk(path)
        except OSError:
            return None
        return node

    def _child_dev(self, path, parent):
        return self.mounts.get(self.norm(path), parent.dev)

    # -- system calls ----------------------------------------------------------------
    def mkdir(self, path, mode=0o777):
        parent, name, node = self._walk(path)
        if node is not None:
            raise sim_oserror(_errno.EEXIST, path)
        d = self._new_inode(self._child_dev(path, parent), 'd', mode & 0o777)
        d.nlink = 1
        parent.entries[name] = d.ino
        parent.mtime_ns = self.stamp()
        return d

    def makedirs(self, path, mode=0o777, exist_ok=False):
        path = self.norm(path)
        parts = path.strip('/').split('/')
        cur = ''
        for i, comp in enumerate(parts):
            cur = cur + '/' + comp
            node = self.lookup(cur)
            if node is None:
                self.mkdir(cur, mode)
            elif node.kind != 'd':
                raise sim_oserror(_errno.ENOTDIR if i < len(parts) - 1 else _errno.EEXIST, cur)
            elif i == len(parts) - 1 and not exist_ok:
                raise sim_oserror(_errno.EEXIST, cur)

    def stat(self, path):
        _, _, node = self._walk(path)
        if node is None:
            raise sim_oserror(_errno.ENOENT, path)
        return SimStat(node)

    def open_inode(self, path, flags, mode=0o666):
        """Returns the inode to attach to a descriptor."""
        parent, name, node = self._walk(path)
        acc = flags & _real_os.O_ACCMODE
        if node is None:
            if not flags & _real_os.O_CREAT:
                raise sim_oserror(_errno.ENOENT, path)
            node = self._new_inode(parent.dev, 'f', mode & 0o777)
            node.nlink = 1
            parent.entries[name] = node.ino
            parent.mtime_ns = self.stamp()
            return node
        if flags & _real_os.O_CREAT and flags & _real_os.O_EXCL:
            raise sim_oserror(_errno.EEXIST, path)
        if node.kind == 'd':
            if acc != _real_os.O_RDONLY or flags & _real_os.O_CREAT:
                raise sim_oserror(_errno.EISDIR, path)
            return node
        if flags & _real_os.O_TRUNC and acc != _real_os.O_RDONLY:
            if len(node.data):
                self._credit(node.dev, len(node.data))
                del node.data[:]
            node.mtime_ns = self.stamp()
        return node

    def _credit(self, dev, n):
        if dev in self.dev_free:
            self.dev_free[dev] += n

    def pwrite(self, node, offset, data, append=False):
        """Write as much of data as the device has room for; returns count.  ENOSPC when
        nothing fits."""
        if append:
            offset = len(node.data)
        n = len(data)
        if n == 0:
            return 0, offset
        grow = max(0, offset + n - len(node.data))
        free = self.dev_free.get(node.dev)
        if free is not None and grow > free:
            n -= (grow - free)
            grow = free
            if n <= 0:
                raise sim_oserror(_errno.ENOSPC)
        if free is not None:
            self.dev_free[node.dev] = free - grow
        if offset > len(node.data):
            node.data.extend(b'\0' * (offset - len(node.data)))
        node.data[offset:offset + n] = data[:n]
        node.mtime_ns = self.stamp()
        return n, offset + n

    def pread(self, node, offset, n):
        if offset >= len(node.data) or n <= 0:
            return b''
        return bytes(node.data[offset:offset + n])

    def unlink(self, path):
        parent, name, node = self._walk(path)
        if node is None:
            raise sim_oserror(_errno.ENOENT, path)
        if node.kind == 'd':
            raise sim_oserror(_errno.EISDIR, path)
        del parent.entries[name]
        parent.mtime_ns = self.stamp()
        node.nlink -= 1
        return node

    def rmdir(self, path):
        parent, name, node = self._walk(path)
        if node is None:
            raise sim_oserror(_errno.ENOENT, path)
        if node.kind != 'd':
            raise sim_oserror(_errno.ENOTDIR, path)
        if node.entries:
            raise sim_oserror(_errno.ENOTEMPTY, path)
        del parent.entries[name]
        node.nlink -= 1

    def rename(self, src, dst):
        # as renameat(2): both parent directories are resolved first, then the source name
        try:
            sp, sname, snode = self._walk(src)
        except OSError as e:
            raise sim_oserror(e.errno, src, dst)
        try:
            dp, dname, dnode = self._walk(dst)
        except OSError as e:
            raise sim_oserror(e.errno, src, dst)
        if snode is None:
            raise sim_oserror(_errno.ENOENT, src, dst)
        if snode.dev != dp.dev:
            raise sim_oserror(_errno.EXDEV, src, dst)
        if dnode is snode:
            return snode, None
        nsrc, ndst = self.norm(src), self.norm(dst)
        if snode.kind == 'd' and ndst.startswith(nsrc + '/'):
            raise sim_oserror(_errno.EINVAL, src, dst)
        if nsrc.startswith(ndst + '/'):
            raise sim_oserror(_errno.ENOTEMPTY, src, dst)      # target is an ancestor of the source
        if dnode is not None:
            if dnode.kind == 'd' and snode.kind != 'd':
                raise sim_oserror(_errno.EISDIR, src, dst)
            if dnode.kind != 'd' and snode.kind == 'd':
                raise sim_oserror(_errno.ENOTDIR, src, dst)
            if dnode.kind == 'd' and dnode.entries:
                raise sim_oserror(_errno.ENOTEMPTY, src, dst)
            dnode.nlink -= 1
        del sp.entries[sname]
        dp.entries[dname] = snode.ino
        sp.mtime_ns = dp.mtime_ns = self.stamp()
        return snode, dnode

    def link(self, src, dst):
        _, _, snode = self._walk(src)
        if snode is None:
            raise sim_oserror(_errno.ENOENT, src, dst)
        dp, dname, dnode = self._walk(dst)
        if dnode is not None:
            raise sim_oserror(_errno.EEXIST, src, dst)
        if snode.dev != dp.dev:
            raise sim_oserror(_errno.EXDEV, src, dst)
        if snode.kind == 'd':
            raise sim_oserror(_errno.EPERM, src, dst)
        dp.entries[dname] = snode.ino
        snode.nlink += 1
        return snode

    def listdir(self, path):
        _, _, node = self._walk(path)
        if node is None:
            raise sim_oserror(_errno.ENOENT, path)
        if node.kind != 'd':
            raise sim_oserror(_errno.ENOTDIR, path)
        # Directory order on a real file system is arbitrary; the simulator's is creation
        # order of the directory entries, which is a deterministic function of the history.
        return list(node.entries.keys())

    def utime(self, path, ns):
        _, _, node = self._walk(path)
        if node is None:
            raise sim_oserror(_errno.ENOENT, path)
        node.mtime_ns = ns[1]
        return node

    def chmod(self, path, mode):
        _, _, node = self._walk(path)
        if node is None:
            raise sim_oserror(_errno.ENOENT, path)
        node.mode = mode & 0o7777
        return node

    def truncate_inode(self, node, length):
        if length < len(node.data):
            self._credit(node.dev, len(node.data) - length)
            del node.data[length:]
        else:
            node.data.extend(b'\0' * (length - len(node.data)))
        node.mtime_ns = self.stamp()

    # -- environment helpers (used by the harness, never by the code under test) ------
    def env_write_file(self, path, data, replace=False):
        """Write a whole file as one environment event.  replace=True gives a new inode
        (write-temp-and-rename style), otherwise the inode is rewritten in place."""
        self.makedirs(_pp.dirname(self.norm(path)), exist_ok=True)
        if replace and self.lookup(path) is not None:
            self.unlink(path)
        node = self.open_inode(path, _real_os.O_WRONLY | _real_os.O_CREAT | _real_os.O_TRUNC)
        node.data[:] = data
        node.mtime_ns = self.stamp()
        return node


class FileDesc(object):
    __slots__ = ('inode', 'offset', 'flags', 'path', 'closed')

    def __init__(self, inode, flags, path):
        self.inode = inode
        self.offset = 0
        self.flags = flags
        self.path = path
        self.closed = False


class Directive(object):
    """What the scheduler tells a parked process to do with its pending call."""
    __slots__ = ('kind', 'arg')

    def __init__(self, kind='run', arg=None):
        self.kind = kind     # 'run' | 'kill' | 'short' | 'killmid' | 'errno'
        self.arg = arg


RUN = Directive('run')


class SimProc(object):
    def __init__(self, world, slot, environ, version=None):
        self.world = world
        self.slot = slot
        self.environ = dict(environ)
        self.fds = {}
        self._next_fd = 3
        self.lock = _thread.allocate_lock()      # held; released by whoever schedules us next
        self.lock.acquire()
        self.state = 'new'            # new | parked | running | done
        self.pending = None           # (call, path, size)
        self.directive = RUN
        self.dead = False             # killed: every later call raises Killed
        self.thread = None
        self.outcome = None           # ('ok', value) | ('raised', exc) | ('killed',)
        self.version = version
        self.ncalls = 0

    def new_fd(self, fdesc):
        fd = self._next_fd
        self._next_fd += 1
        self.fds[fd] = fdesc
        return fd


_tls = _threading.local()


def current_proc():
    return getattr(_tls, 'proc', None)


class World(object):
    """One simulated machine: a SimFS, a set of simulated processes and the event log."""

    def __init__(self, fs, knobs):
        self.fs = fs
        self.knobs = knobs
        self.log = []                # event records (tuples)
        self.seq = 0
        self.procs = []
        self.main_lock = _thread.allocate_lock()   # held while simulated processes run
        self.main_lock.acquire()
        self.decider = None
        self.step_cap = 5000
        self.fatal = None
        self.aborting = False
        self.env_hook = None            # callable(): apply one pending environment event now
        self.env_pending = lambda: False
        self.decisions = []          # every decision actually taken, in order
        self.fault_counts = {}
        self.steps = 0
        self.tmp_counter = 0
        self.clock_deltas = None     # callable() -> ns, set by the engine
        self.on_event = None         # callable(event) for shadow-state bookkeeping
        self.wall_timeout = 30.0

    # -- logging ---------------------------------------------------------------------
    def record(self, slot, call, path=None, ino=None, res=None, size=None):
        self.seq += 1
        ev = (self.seq, self.fs.now_ns, slot, call, path, ino, res, size)
        self.log.append(ev)
        if self.on_event is not None:
            self.on_event(ev)
        return ev

    def count_fault(self, kind):
        self.fault_counts[kind] = self.fault_counts.get(kind, 0) + 1

    # -- the yield point -------------------------------------------------------------
    def syscall(self, call, fn, path=None, size=None, mutating=False):
        """Every simulated system call goes through here.  fn(limit) performs the call
        atomically; limit is a byte count for short I/O or None."""
        p = current_proc()
        if p is None:
            # environment / oracle access from the scheduler thread: no yield
            return self._perform(-1, call, fn, path, size, mutating, None)
        if p.dead:
            raise Killed()
        p.pending = (call, path, size)
        p.state = 'parked'
        if not self._dispatch(p):
            p.lock.acquire()
        d = p.directive
        p.ncalls += 1
        if d.kind == 'kill':
            p.dead = True
            self.record(p.slot, 'KILL', path, None, 'before:' + call)
            raise Killed()
        if d.kind == 'errno':
            self.record(p.slot, call, path, None, 'E' + _errno.errorcode.get(d.arg, str(d.arg)) + '!')
            raise sim_oserror(d.arg, path)
        limit = None
        if d.kind in ('short', 'killmid'):
            limit = d.arg
        try:
            return self._perform(p.slot, call, fn, path, size, mutating, limit)
        finally:
            if d.kind == 'killmid':
                p.dead = True
                self.record(p.slot, 'KILL', path, None, 'mid:' + call)
                raise Killed()

    def _perform(self, slot, call, fn, path, size, mutating, limit):
        if mutating and self.clock_deltas is not None:
            self.fs.tick(self.clock_deltas())
        try:
            res = fn(limit)
        except OSError as e:
            self.record(slot, call, path, None, 'E' + _errno.errorcode.get(e.errno, str(e.errno)), size)
            raise
        ino = None
        out = res
        if isinstance(res, tuple) and len(res) == 2 and isinstance(res[0], _Logged):
            ino, out = res[0].ino, res[1]
            self.record(slot, call, path, ino, res[0].res, size)
        else:
            self.record(slot, call, path, None, 'ok', size)
        return out

    # -- process management ----------------------------------------------------------
    def spawn(self, environ, body, version=None):
        p = SimProc(self, len(self.procs), environ, version)
        self.procs.append(p)

        def run():
            _tls.proc = p
            p.lock.acquire()                     # parked at the pseudo-call 'start'
            try:
                if p.directive.kind == 'kill':
                    p.dead = True
                    self.record(p.slot, 'KILL', None, None, 'before:start')
                    raise Killed()
                p.outcome = ('ok', body(p))
            except Killed:
                p.outcome = ('killed',)
            except SeamGap as e:
                p.outcome = ('seamgap', e)
            except BaseException as e:   # noqa: the code under test may raise anything
                p.outcome = ('raised', e)
            finally:
                self._close_all(p)
                p.state = 'done'
                _tls.proc = None
                self._dispatch(None)

        p.pending = ('start', None, None)
        p.state = 'parked'
        p.thread = _threading.Thread(target=run, name='simproc-%d' % p.slot, daemon=True)
        old = _threading.stack_size(1024 * 1024)      # small stacks: thread creation is the hot path
        try:
            p.thread.start()
        finally:
            _threading.stack_size(old)
        return p

    def _close_all(self, p):
        for fdesc in p.fds.values():
            fdesc.closed = True
        p.fds.clear()

    def _dispatch(self, me):
        """The scheduler step, executed by whichever thread just parked or finished (or by
        the harness thread at the start of an epoch): let the decider choose which parked
        process performs its pending call next, and with which fault.  Returns True when the
        chosen process is the caller itself (no thread switch needed)."""
        if self.aborting:
            self.main_lock.release()
            return False
        runnable = [p for p in self.procs if p.state == 'parked']
        if not runnable:
            self.main_lock.release()
            return False
        try:
            if self.steps >= self.step_cap:
                raise HarnessError('step cap %d exceeded' % self.step_cap)
            slot, directive = self.decider.decide(self, runnable)
            while slot == -1 and directive.kind == 'env':
                # an environment event between two system calls of the simulated processes
                self.decisions.append(['env', -1])
                self.env_hook()
                slot, directive = self.decider.decide(self, runnable)
            p = self.procs[slot]
            if p.state != 'parked':
                raise HarnessError('decider chose non-runnable slot %r' % slot)
        except BaseException as e:        # noqa: must reach the harness thread
            self.fatal = e
            self.main_lock.release()
            return False
        self.decisions.append([directive.kind, slot] + ([directive.arg] if directive.arg is not None else []))
        if directive.kind != 'run':
            self.count_fault(directive.kind + ':' + p.pending[0])
        self.steps += 1
        p.directive = directive
        p.state = 'running'
        if p is me:
            return True
        p.lock.release()
        return False

    def run_until_quiescent(self, decider, step_cap=5000):
        """Run every spawned process to completion under the decider's schedule."""
        self.decider = decider
        self.step_cap = step_cap
        self._dispatch(None)
        if not self.main_lock.acquire(timeout=self.wall_timeout * 4):
            raise HarnessError('simulated processes did not reach quiescence within %ss' % (self.wall_timeout * 4))
        if self.fatal is not None:
            e, self.fatal = self.fatal, None
            self.abort_all()
            raise e
        for p in self.procs:
            if p.thread is not None:
                p.thread.join(self.wall_timeout)
                p.thread = None

    def abort_all(self):
        self.aborting = True
        try:
            for p in self.procs:
                if p.state == 'parked':
                    p.directive = Directive('kill')
                    p.state = 'running'
                    p.lock.release()
                    if not self.main_lock.acquire(timeout=self.wall_timeout):
                        break
            for p in self.procs:
                if p.thread is not None:
                    p.thread.join(1.0)
                    p.thread = None
        finally:
            self.aborting = False


class _Logged(object):
    """Wrapper so a syscall body can tell the log which inode it touched."""
    __slots__ = ('ino', 'res')

    def __init__(self, ino, res='ok'):
        self.ino = ino
        self.res = res


def L(ino, value, res='ok'):
    return (_Logged(ino, res), value)


# ======================================================================================
# Facades
# ======================================================================================

class SimRaw(_io.RawIOBase):
    """Raw file object over a simulated descriptor; every read/write is one system call and
    may be short."""

    def __init__(self, world, proc, fd, readable, writable, name):
        super().__init__()
        self._w = world
        self._p = proc
        self._fd = fd
        self._r = readable
        self._wr = writable
        self.name = name

    def readable(self):
        return self._r

    def writable(self):
        return self._wr

    def seekable(self):
        return True

    def fileno(self):
        return self._fd

    def _fdesc(self):
        fdesc = self._p.fds.get(self._fd)
        if fdesc is None or fdesc.closed:
            raise sim_oserror(_errno.EBADF)
        return fdesc

    def readinto(self, b):
        if self._foreign():
            return 0
        fdesc = self._fdesc()
        n = len(b)

        def do(limit):
            if (fdesc.flags & _real_os.O_ACCMODE) == _real_os.O_WRONLY:
                raise sim_oserror(_errno.EBADF)
            if fdesc.inode.kind == 'd':
                raise sim_oserror(_errno.EISDIR)
            k = n if limit is None else max(1, min(n, limit))
            data = self._w.fs.pread(fdesc.inode, fdesc.offset, k)
            fdesc.offset += len(data)
            b[:len(data)] = data
            return L(fdesc.inode.ino, len(data), 'n=%d' % len(data))
        return self._w.syscall('read', do, fdesc.path, n)

    def write(self, b):
        if self._foreign():
            return len(b)
        fdesc = self._fdesc()
        data = bytes(b)
        n = len(data)

        def do(limit):
            if (fdesc.flags & _real_os.O_ACCMODE) == _real_os.O_RDONLY:
                raise sim_oserror(_errno.EBADF)
            k = n if limit is None else max(1, min(n, limit))
            cnt, off = self._w.fs.pwrite(fdesc.inode, fdesc.offset, data[:k],
                                         append=bool(fdesc.flags & _real_os.O_APPEND))
            fdesc.offset = off
            return L(fdesc.inode.ino, cnt, 'n=%d' % cnt)
        return self._w.syscall('write', do, fdesc.path, n, mutating=True)

    def seek(self, pos, whence=0):
        fdesc = self._fdesc()
        if whence == 0:
            fdesc.offset = pos
        elif whence == 1:
            fdesc.offset += pos
        else:
            fdesc.offset = len(fdesc.inode.data) + pos
        return fdesc.offset

    def tell(self):
        return self._fdesc().offset

    def truncate(self, size=None):
        fdesc = self._fdesc()
        if size is None:
            size = fdesc.offset

        def do(limit):
            self._w.fs.truncate_inode(fdesc.inode, size)
            return L(fdesc.inode.ino, size)
        return self._w.syscall('ftruncate', do, fdesc.path, mutating=True)

    def _foreign(self):
        # a close()/flush() that arrives from the garbage collector on another thread, or
        # after the process ended, must neither yield nor touch the file system
        cp = current_proc()
        return cp is not self._p or self._p.state == 'done'

    def close(self):
        if self.closed:
            return
        try:
            if not self._foreign() and not self._p.dead:
                fdesc = self._p.fds.pop(self._fd, None)
                if fdesc is not None and not fdesc.closed:
                    fdesc.closed = True
                    self._w.syscall('close', lambda limit: L(fdesc.inode.ino, None), fdesc.path)
        finally:
            super().close()


class _Environ(object):
    """os.environ of the calling simulated process."""

    def _d(self):
        p = current_proc()
        if p is None:
            raise HarnessError('os.environ used outside a simulated process')
        return p.environ

    def get(self, k, default=None):
        return self._d().get(k, default)

    def __getitem__(self, k):
        return self._d()[k]

    def __setitem__(self, k, v):
        self._d()[k] = v

    def __delitem__(self, k):
        del self._d()[k]

    def __contains__(self, k):
        return k in self._d()

    def __iter__(self):
        return iter(self._d())

    def keys(self):
        return self._d().keys()

    def items(self):
        return self._d().items()

    def copy(self):
        return dict(self._d())


class _Facade(object):
    _what = 'facade'

    def __getattr__(self, name):
        if name.startswith('__'):
            raise AttributeError(name)
        raise SeamGap('%s has no simulated %r: the code under test uses an OS interface the '
                      'simulator does not implement' % (self._what, name))


class SimOsPath(_Facade):
    _what = 'os.path'
    sep = '/'
    pardir = '..'
    curdir = '.'
    join = staticmethod(_pp.join)
    dirname = staticmethod(_pp.dirname)
    basename = staticmethod(_pp.basename)
    normpath = staticmethod(_pp.normpath)
    split = staticmethod(_pp.split)
    splitext = staticmethod(_pp.splitext)
    isabs = staticmethod(_pp.isabs)
    commonprefix = staticmethod(_pp.commonprefix)
    normcase = staticmethod(_pp.normcase)

    def __init__(self, osf):
        self._os = osf

    def abspath(self, p):
        return self._os._w.fs.norm(p)

    realpath = abspath

    def relpath(self, p, start=None):
        return _pp.relpath(self.abspath(p), self.abspath(start or self._os._w.fs.cwd))

    def expanduser(self, p):
        if not p.startswith('~'):
            return p
        home = self._os.environ.get('HOME')
        if home is None:
            return p
        return home + p[1:]

    def expandvars(self, p):
        return p

    def exists(self, p):
        try:
            self._os.stat(p)
        except (OSError, ValueError):
            return False
        return True

    lexists = exists

    def isdir(self, p):
        try:
            return _stat.S_ISDIR(self._os.stat(p).st_mode)
        except (OSError, ValueError):
            return False

    def isfile(self, p):
        try:
            return _stat.S_ISREG(self._os.stat(p).st_mode)
        except (OSError, ValueError):
            return False

    def islink(self, p):
        try:
            self._os.lstat(p)
        except (OSError, ValueError):
            pass
        return False

    def getmtime(self, p):
        return self._os.stat(p).st_mtime

    def getsize(self, p):
        return self._os.stat(p).st_size

    def samefile(self, a, b):
        sa, sb = self._os.stat(a), self._os.stat(b)
        return sa.st_ino == sb.st_ino and sa.st_dev == sb.st_dev

    def samestat(self, sa, sb):
        return sa.st_ino == sb.st_ino and sa.st_dev == sb.st_dev


class SimOs(_Facade):
    """What `os` looks like from inside the simulation."""
    _what = 'os'
    name = 'posix'
    sep = '/'
    pathsep = ':'
    linesep = '\n'
    curdir = '.'
    pardir = '..'
    devnull = '/dev/null'
    error = OSError
    fspath = staticmethod(_real_os.fspath)
    fsencode = staticmethod(_real_os.fsencode)
    fsdecode = staticmethod(_real_os.fsdecode)
    strerror = staticmethod(_real_os.strerror)
    PathLike = _real_os.PathLike
    for _n in ('O_RDONLY', 'O_WRONLY', 'O_RDWR', 'O_CREAT', 'O_EXCL', 'O_TRUNC', 'O_APPEND',
               'O_NOFOLLOW', 'O_CLOEXEC', 'O_ACCMODE', 'SEEK_SET', 'SEEK_CUR', 'SEEK_END',
               'F_OK', 'R_OK', 'W_OK', 'X_OK'):
        locals()[_n] = getattr(_real_os, _n)
    del _n

    def __init__(self, world):
        self._w = world
        self.path = SimOsPath(self)
        self.environ = _Environ()

    # ---- helpers
    def _p(self):
        return current_proc()

    def _sys(self, *a, **k):
        return self._w.syscall(*a, **k)

    def getenv(self, k, default=None):
        return self.environ.get(k, default)

    def getpid(self):
        p = self._p()
        return 1000 + (p.slot if p else 0)

    def getcwd(self):
        return self._w.fs.cwd

    def getuid(self):
        return 1000

    # ---- metadata
    def stat(self, path, *, dir_fd=None, follow_symlinks=True):
        if isinstance(path, int):
            return self.fstat(path)
        fs = self._w.fs

        def do(limit):
            st = fs.stat(path)
            return L(st.st_ino, st)
        return self._sys('stat', do, fs.norm(path))

    lstat = stat

    def fstat(self, fd):
        fdesc = self._fd(fd)
        return self._sys('fstat', lambda limit: L(fdesc.inode.ino, SimStat(fdesc.inode)), fdesc.path)

    def access(self, path, mode, **kw):
        fs = self._w.fs

        def do(limit):
            return fs.lookup(path) is not None
        return self._sys('access', do, fs.norm(path))

    def listdir(self, path='.'):
        fs = self._w.fs
        if isinstance(path, int):
            path = self._fd(path).path
        return self._sys('listdir', lambda limit: fs.listdir(path), fs.norm(path))

    def scandir(self, path='.'):
        names = self.listdir(path)
        osf = self

        class _Entry(object):
            def __init__(self, d, n):
                self.name = n
                self.path = _pp.join(d, n)

            def stat(self, follow_symlinks=True):
                return osf.stat(self.path)

            def is_dir(self, follow_symlinks=True):
                return osf.path.isdir(self.path)

            def is_file(self, follow_symlinks=True):
                return osf.path.isfile(self.path)

            def is_symlink(self):
                return False

        class _It(list):
            def __enter__(self):
                return self

            def __exit__(self, *a):
                return False

            def close(self):
                pass
        return _It(_Entry(path, n) for n in names)

    # ---- namespace operations
    def mkdir(self, path, mode=0o777, **kw):
        fs = self._w.fs
        return self._sys('mkdir', lambda limit: L(fs.mkdir(path, mode).ino, None), fs.norm(path), mutating=True)

    def makedirs(self, name, mode=0o777, exist_ok=False):
        # as os.makedirs: one stat-like probe per missing component would be finer grained,
        # but no property depends on the interleaving of directory creation
        fs = self._w.fs
        return self._sys('makedirs', lambda limit: fs.makedirs(name, mode, exist_ok), fs.norm(name), mutating=True)

    def unlink(self, path, **kw):
        fs = self._w.fs
        return self._sys('unlink', lambda limit: L(fs.unlink(path).ino, None), fs.norm(path), mutating=True)

    remove = unlink

    def rmdir(self, path, **kw):
        fs = self._w.fs
        return self._sys('rmdir', lambda limit: fs.rmdir(path), fs.norm(path), mutating=True)

    def rename(self, src, dst, **kw):
        fs = self._w.fs

        def do(limit):
            snode, dnode = fs.rename(src, dst)
            return L(snode.ino, None, 'ok' if dnode is None else 'over:%d' % dnode.ino)
        return self._sys('rename', do, fs.norm(dst), mutating=True)

    replace = rename

    def link(self, src, dst, **kw):
        fs = self._w.fs
        return self._sys('link', lambda limit: L(fs.link(src, dst).ino, None), fs.norm(dst), mutating=True)

    def utime(self, path, times=None, *, ns=None, **kw):
        fs = self._w.fs
        if isinstance(path, int):                     # os.utime supports descriptors
            fdesc = self._fd(path)

            def dofd(limit):
                if ns is not None:
                    t = ns
                elif times is not None:
                    t = (int(times[0] * 1e9), int(times[1] * 1e9))
                else:
                    t = (fs.stamp(), fs.stamp())
                fdesc.inode.mtime_ns = t[1]
                return L(fdesc.inode.ino, None)
            return self._sys('utime', dofd, fdesc.path, mutating=True)

        def do(limit):
            if ns is not None:
                t = ns
            elif times is not None:
                t = (int(times[0] * 1e9), int(times[1] * 1e9))
            else:
                t = (fs.stamp(), fs.stamp())
            return L(fs.utime(path, t).ino, None)
        return self._sys('utime', do, fs.norm(path), mutating=True)

    def chmod(self, path, mode, **kw):
        fs = self._w.fs
        if isinstance(path, int):
            fdesc = self._fd(path)

            def dofd(limit):
                fdesc.inode.mode = mode & 0o7777
                return L(fdesc.inode.ino, None)
            return self._sys('chmod', dofd, fdesc.path, mutating=True)
        return self._sys('chmod', lambda limit: L(fs.chmod(path, mode).ino, None), fs.norm(path), mutating=True)

    def truncate(self, path, length):
        fs = self._w.fs
        if isinstance(path, int):
            return self.ftruncate(path, length)

        def do(limit):
            node = fs.lookup(path)
            if node is None:
                raise sim_oserror(_errno.ENOENT, path)
            fs.truncate_inode(node, length)
            return L(node.ino, None)
        return self._sys('truncate', do, fs.norm(path), mutating=True)

    # ---- descriptors
    def _fd(self, fd):
        p = self._p()
        fdesc = p.fds.get(fd) if p is not None else None
        if fdesc is None or fdesc.closed:
            raise sim_oserror(_errno.EBADF)
        return fdesc

    def open(self, path, flags, mode=0o777, **kw):
        fs = self._w.fs
        p = self._p()
        npath = fs.norm(path)

        def do(limit):
            existed = fs.lookup(path)
            node = fs.open_inode(path, flags, mode)
            fd = p.new_fd(FileDesc(node, flags, npath))
            how = 'ro' if (flags & _real_os.O_ACCMODE) == _real_os.O_RDONLY else \
                ('creat' if existed is None else ('trunc' if flags & _real_os.O_TRUNC else 'rw'))
            return L(node.ino, fd, how)
        mut = (flags & _real_os.O_ACCMODE) != _real_os.O_RDONLY or bool(flags & _real_os.O_CREAT)
        return self._sys('open', do, npath, mutating=mut)

    def close(self, fd):
        p = self._p()
        fdesc = self._fd(fd)

        def do(limit):
            fdesc.closed = True
            p.fds.pop(fd, None)
            return L(fdesc.inode.ino, None)
        return self._sys('close', do, fdesc.path)

    def read(self, fd, n):
        fdesc = self._fd(fd)

        def do(limit):
            if (fdesc.flags & _real_os.O_ACCMODE) == _real_os.O_WRONLY:
                raise sim_oserror(_errno.EBADF)
            if fdesc.inode.kind == 'd':
                raise sim_oserror(_errno.EISDIR)
            k = n if limit is None else max(1, min(n, limit))
            data = self._w.fs.pread(fdesc.inode, fdesc.offset, k)
            fdesc.offset += len(data)
            return L(fdesc.inode.ino, data, 'n=%d' % len(data))
        return self._sys('read', do, fdesc.path, n)

    def write(self, fd, data):
        fdesc = self._fd(fd)
        data = bytes(data)
        n = len(data)

        def do(limit):
            if (fdesc.flags & _real_os.O_ACCMODE) == _real_os.O_RDONLY:
                raise sim_oserror(_errno.EBADF)
            k = n if limit is None else max(1, min(n, limit))
            cnt, off = self._w.fs.pwrite(fdesc.inode, fdesc.offset, data[:k],
                                         append=bool(fdesc.flags & _real_os.O_APPEND))
            fdesc.offset = off
            return L(fdesc.inode.ino, cnt, 'n=%d' % cnt)
        return self._sys('write', do, fdesc.path, n, mutating=True)

    def lseek(self, fd, pos, how):
        fdesc = self._fd(fd)
        if how == 0:
            fdesc.offset = pos
        elif how == 1:
            fdesc.offset += pos
        else:
            fdesc.offset = len(fdesc.inode.data) + pos
        return fdesc.offset

    def fsync(self, fd):
        fdesc = self._fd(fd)
        return self._sys('fsync', lambda limit: L(fdesc.inode.ino, None), fdesc.path)

    fdatasync = fsync
    supports_fd = frozenset()          # membership tests only; the fd forms above are implemented
    supports_follow_symlinks = frozenset()
    supports_dir_fd = frozenset()

    def ftruncate(self, fd, length):
        fdesc = self._fd(fd)

        def do(limit):
            if (fdesc.flags & _real_os.O_ACCMODE) == _real_os.O_RDONLY or fdesc.inode.kind == 'd':
                raise sim_oserror(_errno.EINVAL)
            self._w.fs.truncate_inode(fdesc.inode, length)
            return L(fdesc.inode.ino, None)
        return self._sys('ftruncate', do, fdesc.path, mutating=True)

    def fdopen(self, fd, mode='r', buffering=-1, encoding=None, errors=None, newline=None, closefd=True):
        return self._w.make_file(self._p(), fd, mode, buffering, encoding, errors, newline)


def _make_file(world, proc, fd, mode, buffering, encoding, errors, newline):
    binary = 'b' in mode
    reading = 'r' in mode or '+' in mode
    writing = any(c in mode for c in 'wax+')
    fdesc = proc.fds[fd]
    raw = SimRaw(world, proc, fd, reading, writing, fdesc.path)
    if buffering == 0:
        if not binary:
            raise ValueError("can't have unbuffered text I/O")
        return raw
    bufsize = world.knobs.get('stdio_buffer', 8192) if buffering in (-1, 1) else buffering
    if reading and writing:
        buf = _io.BufferedRandom(raw, bufsize)
    elif writing:
        buf = _io.BufferedWriter(raw, bufsize)
    else:
        buf = _io.BufferedReader(raw, bufsize)
    if binary:
        return buf
    return _io.TextIOWrapper(buf, encoding or 'utf-8', errors, newline)


World.make_file = _make_file


def make_open(world, osf):
    def sim_open(file, mode='r', buffering=-1, encoding=None, errors=None, newline=None,
                 closefd=True, opener=None):
        if isinstance(file, int):
            return osf.fdopen(file, mode, buffering, encoding, errors, newline)
        flags = 0
        if '+' in mode:
            flags |= _real_os.O_RDWR
        elif 'r' in mode:
            flags |= _real_os.O_RDONLY
        else:
            flags |= _real_os.O_WRONLY
        if 'w' in mode:
            flags |= _real_os.O_CREAT | _real_os.O_TRUNC
        elif 'a' in mode:
            flags |= _real_os.O_CREAT | _real_os.O_APPEND
        elif 'x' in mode:
            flags |= _real_os.O_CREAT | _real_os.O_EXCL
        fd = osf.open(file, flags, 0o666)
        return osf.fdopen(fd, mode, buffering, encoding, errors, newline)
    return sim_open


class SimTempfile(_Facade):
    _what = 'tempfile'

    def __init__(self, world, osf):
        self._w = world
        self._os = osf
        self.tempdir = None

    def gettempdir(self):
        return self._os.environ.get('TMPDIR') or (SIM_ROOT + '/tmp')

    def mkstemp(self, suffix=None, prefix=None, dir=None, text=False):
        d = dir or self.gettempdir()
        while True:
            self._w.tmp_counter += 1
            name = _pp.join(d, '%s%06d%s' % (prefix or 'tmp', self._w.tmp_counter, suffix or ''))
            try:
                fd = self._os.open(name, _real_os.O_RDWR | _real_os.O_CREAT | _real_os.O_EXCL, 0o600)
            except FileExistsError:
                continue
            return fd, name

    def NamedTemporaryFile(self, mode='w+b', buffering=-1, encoding=None, newline=None,
                           suffix=None, prefix=None, dir=None, delete=True, **kw):
        fd, name = self.mkstemp(suffix, prefix, dir)
        f = self._os.fdopen(fd, mode, buffering, encoding, None, newline)
        osf = self._os

        class _Wrap(object):
            def __init__(self):
                self.name = name
                self.file = f

            def __getattr__(self, k):
                return getattr(f, k)

            def __enter__(self):
                return self

            def __exit__(self, *a):
                self.close()
                return False

            def close(self):
                f.close()
                if delete:
                    try:
                        osf.unlink(name)
                    except FileNotFoundError:
                        pass
        return _Wrap()


class SimShutil(_Facade):
    """shutil.move/copy2/copyfile/copystat transcribed step by step from CPython 3.12
    (Lib/shutil.py); every step is a separate system call and therefore a yield point."""
    _what = 'shutil'
    Error = __import__('shutil').Error
    SameFileError = __import__('shutil').SameFileError

    def __init__(self, world, osf, sim_open):
        self._w = world
        self._os = osf
        self._open = sim_open

    def _samefile(self, src, dst):
        try:
            return self._os.path.samefile(src, dst)
        except OSError:
            return False

    def copyfileobj(self, fsrc, fdst, length=0):
        chunk = length or self._w.knobs.get('copy_chunk', 65536)
        while True:
            buf = fsrc.read(chunk)
            if not buf:
                break
            fdst.write(buf)

    def copyfile(self, src, dst, *, follow_symlinks=True):
        if self._samefile(src, dst):
            e = self.SameFileError("%r and %r are the same file" % (src, dst))
            e._sim = True
            raise e
        for fn in (src, dst):
            try:
                self._os.stat(fn)
            except OSError:
                pass
        with self._open(src, 'rb') as fsrc:
            with self._open(dst, 'wb') as fdst:
                # _fastcopy_sendfile: fstat for the block size, then a sendfile loop; each
                # sendfile is modelled as one read plus one write of copy_chunk bytes on
                # unbuffered descriptors
                self._os.fstat(fsrc.fileno())
                rsrc = fsrc.raw
                rdst = fdst.raw
                chunk = self._w.knobs.get('copy_chunk', 65536)
                while True:
                    buf = bytearray(chunk)
                    n = rsrc.readinto(buf)
                    if not n:
                        break
                    view = bytes(buf[:n])
                    while view:
                        k = rdst.write(view)
                        view = view[k:]
        return dst

    def copystat(self, src, dst, *, follow_symlinks=True):
        st = self._os.stat(src)
        mode = _stat.S_IMODE(st.st_mode)
        self._os.utime(dst, ns=(st.st_atime_ns, st.st_mtime_ns))
        self._os.chmod(dst, mode)

    def copymode(self, src, dst, *, follow_symlinks=True):
        st = self._os.stat(src)
        self._os.chmod(dst, _stat.S_IMODE(st.st_mode))

    def copy(self, src, dst, *, follow_symlinks=True):
        if self._os.path.isdir(dst):
            dst = _pp.join(dst, _pp.basename(src))
        self.copyfile(src, dst)
        self.copymode(src, dst)
        return dst

    def copy2(self, src, dst, *, follow_symlinks=True):
        if self._os.path.isdir(dst):
            dst = _pp.join(dst, _pp.basename(src))
        self.copyfile(src, dst)
        self.copystat(src, dst)
        return dst

    def move(self, src, dst, copy_function=None):
        copy_function = copy_function or self.copy2
        real_dst = dst
        if self._os.path.isdir(dst):
            if self._samefile(src, dst):
                self._os.rename(src, dst)
                return
            real_dst = _pp.join(dst, _pp.basename(src.rstrip('/')))
            if self._os.path.exists(real_dst):
                raise self.Error("Destination path '%s' already exists" % real_dst)
        try:
            self._os.rename(src, real_dst)
        except OSError:
            if self._os.path.islink(src):
                raise SeamGap('shutil.move of a symlink')
            elif self._os.path.isdir(src):
                raise SeamGap('shutil.move of a directory across devices')
            else:
                copy_function(src, real_dst)
                self._os.unlink(src)
        return real_dst

    def rmtree(self, path, ignore_errors=False, onerror=None):
        for n in self._os.listdir(path):
            full = _pp.join(path, n)
            if self._os.path.isdir(full):
                self.rmtree(full)
            else:
                self._os.unlink(full)
        self._os.rmdir(path)


class SimGlob(_Facade):
    _what = 'glob'

    def __init__(self, osf):
        self._os = osf

    def glob(self, pattern, **kw):
        d, pat = _pp.split(pattern)
        if any(c in d for c in '*?['):
            raise SeamGap('glob with a wildcard directory part')
        if not any(c in pat for c in '*?['):
            return [pattern] if self._os.path.lexists(pattern) else []
        try:
            names = self._os.listdir(d or '.')
        except OSError:
            return []
        hidden_ok = pat.startswith('.')
        return [_pp.join(d, n) for n in names
                if _fnmatch.fnmatchcase(n, pat) and (hidden_ok or not n.startswith('.'))]

    def iglob(self, pattern, **kw):
        return iter(self.glob(pattern))


class SimSys(_Facade):
    _what = 'sys'

    def __init__(self, argv):
        import sys as _sys
        self.argv = list(argv)
        self.stderr = _io.StringIO()
        self.stdout = _io.StringIO()
        self.platform = 'linux'
        self.version_info = _sys.version_info
        self.maxsize = _sys.maxsize
        self.exit = _sys.exit
        self.getfilesystemencoding = _sys.getfilesystemencoding
        self.modules = _sys.modules
        self.path = _sys.path
        self.exc_info = _sys.exc_info
        self.executable = _sys.executable
        self.byteorder = _sys.byteorder


class Seam(object):
    """Builds the facades for one World and rebinds them into the module namespaces of the
    code under test; restore() puts the originals back."""

    def __init__(self, world, argv0):
        self.world = world
        self.os = SimOs(world)
        self.open = make_open(world, self.os)
        self.tempfile = SimTempfile(world, self.os)
        self.shutil = SimShutil(world, self.os, self.open)
        self.glob = SimGlob(self.os)
        self.sys = SimSys([argv0])
        self._saved = []

    def bind(self, module, **names):
        for k, v in names.items():
            had = k in module.__dict__
            self._saved.append((module, k, had, module.__dict__.get(k)))
            setattr(module, k, v)

    def restore(self):
        for module, k, had, old in reversed(self._saved):
            if had:
                setattr(module, k, old)
            else:
                try:
                    delattr(module, k)
                except AttributeError:
                    pass
        self._saved = []
