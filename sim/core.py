"""Shared simulator discipline: seed derivation, worker pool, known-findings file, evidence
writer, exit-code contract (DESIGN.md §2)."""
import concurrent.futures as _cf
import faulthandler
import hashlib
import json
import multiprocessing as _mp
import os
import sys
import time

VERIF = os.path.dirname(os.path.dirname(os.path.abspath(__file__)))
REPO = os.environ.get('VERIF_REPO', '/repo')
EVIDENCE_DIR = os.path.join(VERIF, 'evidence')
REPLAY_DIR = os.path.join(VERIF, 'replays')
KNOWN_FILE = os.path.join(VERIF, 'KNOWN_FINDINGS.txt')

EXIT_HELD, EXIT_VIOLATION, EXIT_HARNESS = 0, 1, 2


def verif_seed():
    try:
        return int(os.environ.get('VERIF_SEED', '0'))
    except ValueError:
        return int(hashlib.sha256(os.environ['VERIF_SEED'].encode()).hexdigest()[:8], 16)


def tier(default='quick'):
    t = os.environ.get('VERIF_TIER', default)
    return t if t in ('quick', 'thorough') else default


def derive_seed(engine, prop, root, index):
    h = hashlib.sha256(('%s/%s/%d/%s' % (engine, prop, root, index)).encode()).hexdigest()
    return int(h[:16], 16)


def digest_of(obj):
    return hashlib.sha256(json.dumps(obj, sort_keys=True, default=str).encode()).hexdigest()


def ensure_hashseed(value='0'):
    """Re-exec the interpreter with a chosen PYTHONHASHSEED so that nothing in a run depends
    on the hash secret of the launching shell."""
    if os.environ.get('PYTHONHASHSEED') != value:
        env = dict(os.environ)
        env['PYTHONHASHSEED'] = value
        os.execve(sys.executable, [sys.executable] + sys.argv, env)


def ncpu():
    try:
        n = len(os.sched_getaffinity(0))
    except AttributeError:
        n = os.cpu_count() or 1
    return max(1, int(os.environ.get('VERIF_JOBS', n)))


class WorkerDied(Exception):
    pass


def _chunk_entry(args):
    fn, chunk, wall = args
    faulthandler.dump_traceback_later(wall, exit=True)
    try:
        return [fn(item) for item in chunk]
    finally:
        faulthandler.cancel_dump_traceback_later()


_pin_counter = None


def _pin_init(counter):
    # one CPU per worker: the baton hand-off between a worker's threads is several times
    # cheaper when both threads stay on the same core
    try:
        cpus = sorted(os.sched_getaffinity(0))
        with counter.get_lock():
            k = counter.value
            counter.value += 1
        os.sched_setaffinity(0, {cpus[k % len(cpus)]})
    except (AttributeError, OSError):
        pass


def pmap(fn, items, jobs=None, chunk=8, wall_per_chunk=600, budget_s=None):
    """Map fn over items in forked workers, in item order.  A dead or hung worker is a
    harness failure (WorkerDied), never a silent success.  Stops handing out new chunks once
    budget_s is spent (returns results for the prefix that was processed)."""
    items = list(items)
    jobs = jobs or ncpu()
    chunks = [items[i:i + chunk] for i in range(0, len(items), chunk)]
    out = []
    t0 = time.monotonic()
    if jobs == 1:
        for c in chunks:
            if budget_s is not None and time.monotonic() - t0 > budget_s:
                break
            out.extend(_chunk_entry((fn, c, wall_per_chunk)))
        return out
    ctx = _mp.get_context('fork')
    counter = ctx.Value('i', 0)
    with _cf.ProcessPoolExecutor(max_workers=jobs, mp_context=ctx, initializer=_pin_init,
                                 initargs=(counter,)) as ex:
        pending = {}
        results = {}
        nxt = 0
        done_upto = 0
        try:
            while nxt < len(chunks) or pending:
                while nxt < len(chunks) and len(pending) < jobs * 2:
                    if budget_s is not None and time.monotonic() - t0 > budget_s:
                        chunks = chunks[:nxt]
                        break
                    f = ex.submit(_chunk_entry, (fn, chunks[nxt], wall_per_chunk))
                    pending[f] = nxt
                    nxt += 1
                if not pending:
                    break
                done, _ = _cf.wait(list(pending), timeout=wall_per_chunk + 30,
                                   return_when=_cf.FIRST_COMPLETED)
                if not done:
                    raise WorkerDied('no worker finished a chunk within %ss' % (wall_per_chunk + 30))
                for f in done:
                    idx = pending.pop(f)
                    try:
                        results[idx] = f.result()
                    except _cf.process.BrokenProcessPool as e:
                        raise WorkerDied('worker process died: %r' % (e,))
        except BaseException:
            for f in pending:
                f.cancel()
            ex.shutdown(wait=False, cancel_futures=True)
            raise
        for i in range(len(chunks)):
            if i in results:
                out.extend(results[i])
            else:
                break
    return out


# -- known findings -------------------------------------------------------------------

def load_known():
    known, fixed = [], []
    if os.path.exists(KNOWN_FILE):
        for line in open(KNOWN_FILE, encoding='utf-8'):
            line = line.strip()
            if not line or line.startswith('#'):
                continue
            if line.startswith('known:'):
                fields = dict(f.split('=', 1) for f in line[6:].split() if '=' in f)
                known.append({'property': fields.get('property'), 'signature': fields.get('signature'),
                              'line': line})
            elif line.startswith('fixed:'):
                fixed.append(line)
    return known, fixed


def match_known(known, prop, signature):
    for k in known:
        if k['property'] == prop and k['signature'] == signature:
            return k
    return None


# -- evidence --------------------------------------------------------------------------

def write_evidence(prop, tier_, seed, coverage, assumptions, wall_s, violations, level='exploration'):
    os.makedirs(EVIDENCE_DIR, exist_ok=True)
    ev = {'property_id': prop, 'tier': tier_, 'seed': seed, 'level': level, 'coverage': coverage,
          'assumptions': assumptions, 'wall_s': round(wall_s, 2), 'violations': violations}
    path = os.path.join(EVIDENCE_DIR, prop + '.json')
    tmp = path + '.tmp'
    with open(tmp, 'w', encoding='utf-8') as f:
        json.dump(ev, f, indent=1, sort_keys=True, default=str)
        f.write('\n')
    os.replace(tmp, path)
    return path


def write_replay(prop, name, doc):
    os.makedirs(REPLAY_DIR, exist_ok=True)
    path = os.path.join(REPLAY_DIR, '%s-%s.json' % (prop, name))
    with open(path, 'w', encoding='utf-8') as f:
        json.dump(doc, f, indent=1, default=str)
        f.write('\n')
    return path


def repo_import_path():
    """Make `import giscanner` resolve to /repo's working tree (pure Python, nothing to
    build) with a stub for the C lexer extension, and set the builtins g-ir-scanner sets."""
    import builtins
    import types
    if REPO not in sys.path:
        sys.path.insert(0, REPO)
    if 'giscanner._giscanner' not in sys.modules:
        try:
            import giscanner._giscanner  # noqa: F401  (never built in this sandbox)
        except ImportError:
            stub = types.ModuleType('giscanner._giscanner')

            class SourceScanner(object):
                pass
            stub.SourceScanner = SourceScanner
            stub.__verif_stub__ = True
            sys.modules['giscanner._giscanner'] = stub
            import giscanner
            giscanner._giscanner = stub
    builtins.__dict__.setdefault('DATADIR', '/SIM-d41d8cd9/share')
    builtins.__dict__.setdefault('GIR_DIR', '/SIM-d41d8cd9/share/gir-1.0')
