"""Shared simulator discipline: seed derivation, worker pool, known-findings file, evidence
writer, exit-code contract (DESIGN.md §2)."""
import faulthandler
import hashlib
import json
import os
import sys
import time

VERIF = os.path.dirname(os.path.dirname(os.path.abspath(__file__)))
REPO = os.environ.get('VERIF_REPO', '/repo')
EVIDENCE_DIR = os.environ.get('VERIF_EVIDENCE_DIR') or os.path.join(VERIF, 'evidence')
REPLAY_DIR = os.environ.get('VERIF_REPLAY_DIR') or os.path.join(VERIF, 'replays')
KNOWN_FILE = os.path.join(VERIF, 'KNOWN_FINDINGS.txt')

EXIT_HELD, EXIT_VIOLATION, EXIT_HARNESS = 0, 1, 2


def verif_seed():
    try:
        return int(os.environ.get('VERIF_SEED', '0'))
    except ValueError:
        return int(hashlib.sha256(os.environ['VERIF_SEED'].encode()).hexdigest()[:8], 16)


def tier(default='quick'):
    t = os.environ.get('VERIF_TIER', default)
    return t if t in ('quick', 'thorough') else default


def derive_seed(engine, prop, root, index):
    h = hashlib.sha256(('%s/%s/%d/%s' % (engine, prop, root, index)).encode()).hexdigest()
    return int(h[:16], 16)


def digest_of(obj):
    return hashlib.sha256(json.dumps(obj, sort_keys=True, default=str).encode()).hexdigest()


def ensure_hashseed(value='0'):
    """Re-exec the interpreter with a chosen PYTHONHASHSEED so that nothing in a run depends
    on the hash secret of the launching shell."""
    if os.environ.get('PYTHONHASHSEED') != value:
        env = dict(os.environ)
        env['PYTHONHASHSEED'] = value
        os.execve(sys.executable, [sys.executable] + sys.argv, env)


def ncpu():
    try:
        n = len(os.sched_getaffinity(0))
    except AttributeError:
        n = os.cpu_count() or 1
    return max(1, int(os.environ.get('VERIF_JOBS', n)))


class WorkerDied(Exception):
    pass


def _chunk_entry(args):
    fn, chunk, wall = args
    faulthandler.dump_traceback_later(wall, exit=True)
    try:
        return [fn(item) for item in chunk]
    finally:
        faulthandler.cancel_dump_traceback_later()


def _cpu_order():
    """The CPUs this process may use, idlest first (measured over 0.2 s from /proc/stat), so that
    two checks running side by side do not pin their workers onto the same cores while others
    idle.  Affects speed only: results never depend on where a worker runs."""
    try:
        cpus = sorted(os.sched_getaffinity(0))
    except AttributeError:
        return []

    def snap():
        busy = {}
        with open('/proc/stat') as f:
            for line in f:
                if line.startswith('cpu') and line[3].isdigit():
                    parts = line.split()
                    vals = [int(x) for x in parts[1:]]
                    idle = vals[3] + (vals[4] if len(vals) > 4 else 0)
                    busy[int(parts[0][3:])] = sum(vals) - idle
        return busy
    try:
        a = snap()
        time.sleep(0.2)
        b = snap()
        return sorted(cpus, key=lambda c: (b.get(c, 0) - a.get(c, 0), c))
    except (OSError, ValueError, IndexError):
        return cpus


def _pin(k, order=None):
    # one CPU per worker: the baton hand-off between a worker's threads is several times
    # cheaper when both threads stay on the same core
    if os.environ.get('VERIF_PIN', '1') != '1':
        return
    try:
        cpus = order or sorted(os.sched_getaffinity(0))
        os.sched_setaffinity(0, {cpus[k % len(cpus)]})
    except (AttributeError, OSError):
        pass


def pmap(fn, items, jobs=None, chunk=8, wall_per_chunk=600, budget_s=None, min_items=0, hard_budget_s=None, pin=True):
    """Map fn over items in forked workers; results come back in item order.  Worker w handles
    chunks w, w+jobs, w+2*jobs, ... and streams (chunk index, results) to a private file.  A
    dead or hung worker is a harness failure (WorkerDied), never a silent success.  With
    budget_s, workers stop starting new chunks once the budget is spent and the longest
    complete prefix of results is returned; the first min_items items are done even past the
    budget (a busy machine must not shrink a check to nothing), up to hard_budget_s.  (Plain fork instead of concurrent.futures: its
    workers ran this code 3-4x slower here, dominated by mmap/munmap churn.)"""
    import pickle
    import shutil
    import signal
    import tempfile
    items = list(items)
    jobs = jobs or ncpu()
    chunks = [items[i:i + chunk] for i in range(0, len(items), chunk)]
    if not chunks:
        return []
    t0 = time.monotonic()
    jobs = min(jobs, len(chunks))
    if jobs <= 1:
        out = []
        for c in chunks:
            if budget_s is not None and time.monotonic() - t0 > budget_s and (
                    len(out) >= min_items or time.monotonic() - t0 > (hard_budget_s or budget_s)):
                break
            out.extend(_chunk_entry((fn, c, wall_per_chunk)))
        return out
    min_chunks = (min_items + chunk - 1) // chunk
    hard = hard_budget_s if hard_budget_s is not None else (budget_s or 0)
    tmpdir = tempfile.mkdtemp(prefix='verif-pmap-')
    pids = {}
    sys.stdout.flush()
    sys.stderr.flush()
    # (pin=False: workers that start processes of their own - E2's fork servers inherit the
    # affinity - are better left to the kernel's scheduler, above all on a busy machine)
    order = _cpu_order() if (pin and os.environ.get('VERIF_PIN', '1') == '1') else None
    try:
        for w in range(jobs):
            pid = os.fork()
            if pid == 0:
                code = 0
                try:
                    if pin:
                        _pin(w, order)
                    with open(os.path.join(tmpdir, 'w%d' % w), 'wb') as f:
                        for ci in range(w, len(chunks), jobs):
                            if budget_s is not None and time.monotonic() - t0 > budget_s:
                                if ci >= min_chunks or time.monotonic() - t0 > hard:
                                    break
                            res = _chunk_entry((fn, chunks[ci], wall_per_chunk))
                            pickle.dump((ci, res), f)
                            f.flush()
                except BaseException:
                    import traceback
                    traceback.print_exc()
                    code = 3
                finally:
                    sys.stdout.flush()
                    sys.stderr.flush()
                    os._exit(code)
            pids[pid] = w
        per_worker = (len(chunks) + jobs - 1) // jobs
        limit = (max(budget_s, hard) + wall_per_chunk if budget_s is not None else per_worker * wall_per_chunk) + 30
        remaining = dict(pids)
        while remaining:
            for pid in list(remaining):
                r, status = os.waitpid(pid, os.WNOHANG)
                if r:
                    w = remaining.pop(pid)
                    if status != 0:
                        raise WorkerDied('worker %d exited with status %#x' % (w, status))
            if remaining:
                if time.monotonic() - t0 > limit:
                    raise WorkerDied('workers still running after %ds' % limit)
                time.sleep(0.02)
        results = {}
        for w in range(jobs):
            with open(os.path.join(tmpdir, 'w%d' % w), 'rb') as f:
                while True:
                    try:
                        ci, res = pickle.load(f)
                    except EOFError:
                        break
                    results[ci] = res
        out = []
        for ci in range(len(chunks)):
            if ci not in results:
                break
            out.extend(results[ci])
        return out
    finally:
        for pid in pids:
            try:
                os.kill(pid, signal.SIGKILL)
            except OSError:
                pass
            try:
                os.waitpid(pid, 0)
            except OSError:
                pass
        shutil.rmtree(tmpdir, ignore_errors=True)


# -- known findings -------------------------------------------------------------------

def load_known():
    known, fixed = [], []
    if os.path.exists(KNOWN_FILE):
        for line in open(KNOWN_FILE, encoding='utf-8'):
            line = line.strip()
            if not line or line.startswith('#'):
                continue
            if line.startswith('known:'):
                fields = dict(f.split('=', 1) for f in line[6:].split() if '=' in f)
                known.append({'property': fields.get('property'), 'signature': fields.get('signature'),
                              'line': line})
            elif line.startswith('fixed:'):
                fixed.append(line)
    return known, fixed


def match_known(known, prop, signature):
    for k in known:
        if k['property'] == prop and k['signature'] == signature:
            return k
    return None


# -- evidence --------------------------------------------------------------------------

def write_evidence(prop, tier_, seed, coverage, assumptions, wall_s, violations, level='exploration'):
    os.makedirs(EVIDENCE_DIR, exist_ok=True)
    ev = {'property_id': prop, 'tier': tier_, 'seed': seed, 'level': level, 'coverage': coverage,
          'assumptions': assumptions, 'wall_s': round(wall_s, 2), 'violations': violations}
    path = os.path.join(EVIDENCE_DIR, prop + '.json')
    tmp = path + '.tmp'
    with open(tmp, 'w', encoding='utf-8') as f:
        json.dump(ev, f, indent=1, sort_keys=True, default=str)
        f.write('\n')
    os.replace(tmp, path)
    return path


def write_replay(prop, name, doc):
    os.makedirs(REPLAY_DIR, exist_ok=True)
    path = os.path.join(REPLAY_DIR, '%s-%s.json' % (prop, name))
    with open(path, 'w', encoding='utf-8') as f:
        json.dump(doc, f, indent=1, default=str)
        f.write('\n')
    return path


def repo_import_path():
    """Make `import giscanner` resolve to /repo's working tree (pure Python, nothing to
    build) with a stub for the C lexer extension, and set the builtins g-ir-scanner sets."""
    import builtins
    import types
    if REPO not in sys.path:
        sys.path.insert(0, REPO)
    if 'giscanner._giscanner' not in sys.modules:
        try:
            import giscanner._giscanner  # noqa: F401  (never built in this sandbox)
        except ImportError:
            stub = types.ModuleType('giscanner._giscanner')

            class SourceScanner(object):
                pass
            stub.SourceScanner = SourceScanner
            stub.__verif_stub__ = True
            sys.modules['giscanner._giscanner'] = stub
            import giscanner
            giscanner._giscanner = stub
    builtins.__dict__.setdefault('DATADIR', '/SIM-d41d8cd9/share')
    builtins.__dict__.setdefault('GIR_DIR', '/SIM-d41d8cd9/share/gir-1.0')
