"""Check driver for property C16 (engine E2 scansim).

    python sim/c16.py [--tier quick|thorough] [--jobs-count N] [--replay FILE]
"""
import argparse
import collections
import copy
import json
import os
import subprocess
import sys
import time

sys.path.insert(0, os.path.dirname(os.path.dirname(os.path.abspath(__file__))))
from sim import core          # noqa: E402

PROP = 'C16'

ASSUMPTIONS = [
    'the C lexer/parser extension (giscanner/_giscanner) cannot be built here and is replaced by sim/cfront.py, which emits the symbol shapes of DESIGN.md Appendix A wrapped in the real SourceSymbol/SourceType classes; the stub is calibrated on every run: headeronly.h, symbolfilter.h, identfilter.h, typedefs.h, gettype.[ch], barapp.h, sletter.h and gtkfrob.h are transcribed and must regenerate their in-tree expected GIRs byte for byte (the last five through the dump path; only the shared-library attribute, which needs ldd on a real binary, is blanked)',
    'everything from scanner_main downwards is the real code of /repo: option parsing, Transformer (includes, cache), GtkDocCommentBlockParser on raw comment text, Transformer.parse, MainTransformer, IntrospectablePass, GIRWriter, write_output',
    'generated jobs avoid constructs whose result legitimately depends on arrival order (duplicate comment-block names, several typedefs of one struct tag, rename-to clashes); source files are only reordered in ways legal C allows (declaration before use)',
    'hash seeds are sampled from a pool plus derived values; cache histories run on a real scratch directory with far-past/far-future mtimes so no outcome depends on the wall clock',
    'exploration samples jobs and variants; a clean batch is evidence, not proof',
]


def replay(path, verbose=True):
    from sim import scansim
    doc = json.load(open(path))
    try:
        res = scansim.run_job_spec(doc['job'], doc['variants'])
    except scansim.ServerError as e:
        print('HARNESS-FAILURE during replay: %s' % e)
        return core.EXIT_HARNESS, None
    finally:
        scansim.servers().stop_all()
    if res['mismatches']:
        m = res['mismatches'][0]
        if verbose:
            print(json.dumps({k: m[k] for k in ('variant', 'status', 'baseline_status', 'diff')}, indent=1)[:3000])
        print('VIOLATION property=%s replay=%s' % (doc.get('property', PROP), path))
        return core.EXIT_VIOLATION, m
    print('replay did NOT reproduce a difference')
    return core.EXIT_HELD, None


def signature_of(mismatch):
    v = mismatch['variant']
    parts = [v['kind']]
    if v['kind'] == 'cache':
        parts.append(v['step'])
    d = mismatch['diff']
    if 'line' in d and d.get('baseline'):
        # the element kind of the first differing line
        import re
        for l in d['baseline'][2:3] or d['baseline']:
            m = re.search(r'<([\w:.-]+)', l)
            if m:
                parts.append(m.group(1))
                break
    if mismatch['status'] != mismatch['baseline_status']:
        parts.append('status')
    return 'S1@' + ':'.join(parts)


class Minimiser(object):
    """Shrinks (job, variants) while some variant still differs from the baseline."""

    def __init__(self, job, variants, budget_runs=60, budget_s=150):
        from sim import scansim
        self.ss = scansim
        self.job = copy.deepcopy(job)
        self.variants = copy.deepcopy(variants)
        self.runs = 0
        self.budget_runs = budget_runs
        self.deadline = time.monotonic() + budget_s
        self.last = None

    def fails(self, job, variants):
        if self.runs >= self.budget_runs or time.monotonic() > self.deadline:
            return False
        self.runs += 1
        try:
            res = self.ss.run_job_spec(job, variants)
        except self.ss.ServerError:
            return False
        if res['mismatches']:
            self.last = res['mismatches'][0]
            return True
        return False

    def run(self, first_bad_index):
        v = self.variants[first_bad_index]
        if v['kind'] == 'cache':
            keep = [x for x in self.variants[:first_bad_index + 1] if x['kind'] == 'cache']
        else:
            keep = [v]
        if self.fails(self.job, keep):
            self.variants = keep
        # simplify the failing variant's perturbations
        for key in ('comment_perm', 'file_order'):
            for i in range(len(self.variants)):
                if key in self.variants[i]:
                    cand = copy.deepcopy(self.variants)
                    del cand[i][key]
                    if self.fails(self.job, cand):
                        self.variants = cand
        # drop cache steps
        i = 0
        while i < len(self.variants) - 1:
            cand = self.variants[:i] + self.variants[i + 1:]
            if self.fails(self.job, cand):
                self.variants = cand
            else:
                i += 1
        # delta-debug declarations, comments, options, dependencies
        for key in ('comments', 'decls', 'options'):
            n = 2
            items = self.job[key]
            while len(items) >= 1 and n <= max(2, len(items)) * 2:
                chunk = max(1, len(items) // n)
                removed = False
                for start in range(0, len(items), chunk):
                    cand_items = items[:start] + items[start + chunk:]
                    cand = copy.deepcopy(self.job)
                    cand[key] = cand_items
                    cv = self.fix_perms(cand, self.variants)
                    if self.fails(cand, cv):
                        self.job, self.variants, items = cand, cv, cand_items
                        n = max(n - 1, 2)
                        removed = True
                        break
                if not removed:
                    if chunk == 1:
                        break
                    n = min(n * 2, len(items))
                if self.runs >= self.budget_runs:
                    break
        return self.job, self.variants, self.last

    @staticmethod
    def fix_perms(job, variants):
        out = copy.deepcopy(variants)
        nc = len(job['comments'])
        for v in out:
            if 'comment_perm' in v:
                v['comment_perm'] = [i for i in v['comment_perm'] if i < nc]
                missing = [i for i in range(nc) if i not in v['comment_perm']]
                v['comment_perm'] += missing
        return out


def main():
    ap = argparse.ArgumentParser()
    ap.add_argument('--tier', default=None)
    ap.add_argument('--replay', default=None)
    ap.add_argument('--jobs-count', type=int, default=None)
    a = ap.parse_args()
    core.ensure_hashseed('0')
    core.repo_import_path()
    if a.replay:
        return replay(a.replay)[0]
    from sim import scansim, scancal
    tier = a.tier or core.tier()
    thorough = tier == 'thorough'
    root = core.verif_seed()
    t0 = time.monotonic()
    njobs = a.jobs_count or (2500 if thorough else 110)
    workers = int(os.environ.get('VERIF_JOBS', min(core.ncpu(), 8)))
    budget = float(os.environ.get('VERIF_BUDGET_S', 1500 if thorough else 240))
    print('[C16] engine=scansim tier=%s VERIF_SEED=%d jobs<=%d workers=%d' % (tier, root, njobs, workers), flush=True)

    # 0. stub calibration (harness check, DESIGN.md §4.2)
    cal = scancal.run()
    scansim.servers().stop_all()         # no server may be alive across the fork of the worker pool
    if cal['problems']:
        # Either the stub or the code under test changed what these inputs produce.  That cannot
        # make a variant differ from its own baseline, so differences found below are still
        # believed; but "held" is not reported on top of a failed calibration (exit 2 at the end).
        for p in cal['problems'][:5]:
            print('NOTE stub calibration failed: %s' % p[:600])

    try:
        results = core.pmap(scansim.exec_job, [(root, i, thorough, PROP) for i in range(njobs)], jobs=workers,
                            chunk=2, wall_per_chunk=2400, budget_s=budget,
                            min_items=min(njobs, 250 if thorough else 64), hard_budget_s=3 * budget)
    except core.WorkerDied as e:
        print('HARNESS-FAILURE %s' % e)
        return core.EXIT_HARNESS
    herr = [r for r in results if r['harness_error']]
    if herr:
        for r in herr[:3]:
            print('HARNESS-FAILURE job %d: %s' % (r['index'], r['harness_error'][:2500]))
        return core.EXIT_HARNESS
    inproc_only = [r for r in results if r.get('inproc_only')]
    for r in inproc_only[:3]:
        print('NOTE job %d: a variant differed when run in-process but not in a pristine forked child '
              '(process-global state leaking between in-process runs; not a verdict): %s' % (
                  r['index'], json.dumps(r['inproc_only'][0], default=str)[:600]))

    # determinism of the harness itself: the same job index run again gives the same bytes
    sample = [r for r in results if not r['violation']][:3]
    for r in sample:
        again = scansim.exec_job((root, r['index'], thorough, PROP))
        if again['harness_error'] or again['baseline_sha'] != r['baseline_sha'] or again['schedules'] != r['schedules']:
            print('HARNESS-FAILURE determinism: job %d re-run differs (%s vs %s)' % (r['index'], again.get('baseline_sha'), r['baseline_sha']))
            return core.EXIT_HARNESS
    scansim.servers().stop_all()

    known, fixed = core.load_known()
    exit_code = core.EXIT_HELD
    reported, known_hits, seen = [], [], set()
    bad = [r for r in results if r['violation']]
    # (for the tools that only need the verdict: VERIF_MAX_REPORT=1 VERIF_NO_MINIMISE=1 reports the
    # first difference as found, with the whole job as replay file)
    for r in bad[:int(os.environ.get('VERIF_MAX_REPORT', '5'))]:
        seed, job, variants = scansim.make_job(root, r['index'], thorough, PROP)
        if os.environ.get('VERIF_NO_MINIMISE') == '1':
            mjob, mvariants, mm = job, variants, None
        else:
            m = Minimiser(job, variants)
            mjob, mvariants, mm = m.run(r['violation']['variant_index'])
        scansim.servers().stop_all()
        if mm is None:
            mm, mjob, mvariants = r['violation'], job, variants
        sig = signature_of(mm)
        if sig in seen:
            continue
        seen.add(sig)
        doc = {'engine': 'scansim', 'property': PROP, 'verif_seed': root, 'run_index': r['index'], 'seed': seed,
               'job': mjob, 'variants': mvariants,
               'violation': {'clause': 'S1', 'signature': sig, 'variant': mm['variant'], 'diff': mm['diff'],
                             'status': mm['status'], 'baseline_status': mm['baseline_status']},
               'minimised_from': {'decls': len(job['decls']), 'comments': len(job['comments']), 'variants': len(variants)},
               'minimised_to': {'decls': len(mjob['decls']), 'comments': len(mjob['comments']), 'variants': len(mvariants)},
               'c_text': render_c(mjob)}
        path = core.write_replay(PROP, '%d-%d' % (root, r['index']), doc)
        p = subprocess.run([sys.executable, os.path.abspath(__file__), '--replay', path], stdout=subprocess.PIPE,
                           stderr=subprocess.PIPE, text=True, timeout=600, env=dict(os.environ, PYTHONHASHSEED='3'))
        if p.returncode != core.EXIT_VIOLATION:
            print('HARNESS-FAILURE replay of %s in a fresh interpreter did not reproduce:\n%s%s' % (path, p.stdout[-1500:], p.stderr[-1500:]))
            return core.EXIT_HARNESS
        k = core.match_known(known, PROP, sig)
        if k is not None:
            print('KNOWN-FINDING: property=%s %s' % (PROP, k['line'][6:].strip()))
            known_hits.append(sig)
            continue
        exit_code = core.EXIT_VIOLATION
        reported.append({'signature': sig, 'replay': path, 'job_index': r['index']})
        print('violation %s (job %d; minimised %s -> %s)' % (sig, r['index'], doc['minimised_from'], doc['minimised_to']))
        print(json.dumps({'variant': mm['variant'], 'diff': mm['diff']}, default=str)[:1800])
        print('VIOLATION property=%s replay=%s' % (PROP, path))

    if cal['problems'] and exit_code == core.EXIT_HELD:
        print('HARNESS-FAILURE stub calibration failed and no difference between variants was found: nothing can be concluded')
        return core.EXIT_HARNESS
    wall = time.monotonic() - t0
    cov = coverage(results, cal, wall, workers, known_hits, fixed, reported, root, thorough)
    core.write_evidence(PROP, tier, root, cov, ASSUMPTIONS, wall, len(reported))
    print('[C16] jobs=%d scanner-runs=%d distinct_nontrivial=%d hash-seeds=%d violations=%d wall=%.1fs -> exit %d' % (
        len(results), cov['evaluations'], cov['distinct_nontrivial'], len(cov['hash_seeds_used']), len(reported), wall, exit_code), flush=True)
    return exit_code


def render_c(job):
    from sim import cfront
    out = {}
    for d in job['decls']:
        out.setdefault(d['file'], []).append('%4d  %s' % (d['line'], cfront.c_text(d)))
    return out


def coverage(results, cal, wall, workers, known_hits, fixed, reported, root, thorough):
    from sim import scansim
    nvar = sum(r['variants'] for r in results)
    sched = set()
    for r in results:
        for s in r['schedules']:
            sched.add((r['index'], s))
    eff = collections.Counter()
    for r in results:
        eff.update(r['cache_effects'])
    seeds = sorted({h for r in results for h in r['hashseeds']})
    sobs = [r['sorted_obs'] for r in results if r.get('sorted_obs')]
    sample = None
    if results:
        seed, job, variants = scansim.make_job(root, results[0]['index'], thorough, PROP)
        sample = {'job_index': results[0]['index'], 'seed': seed, 'namespace': job['ns'], 'shape': job['shape'],
                  'file_order': job['file_order'], 'includes': job['includes'], 'options': job['options'],
                  'c_text': render_c(job), 'comment_blocks': [c[0] for c in job['comments'][:3]],
                  'variants': variants[:4] + variants[-3:], 'baseline_output_sha256_16': results[0]['baseline_sha']}
    return {
        'evaluations': nvar + len(results),
        'distinct_nontrivial': len(sched),
        'rule': 'one evaluation = one run of the real scanner_main (baselines and dependency scans in a pristine forked child of the '
                'per-hash-seed server, variants inside the server after a reset of process-global scanner state, re-run in '
                'pristine children whenever one differs); a job is a '
                'generated main namespace with 0-3 dependency namespaces that the scanner itself turned into GIR files; distinct = '
                'distinct (job, hash seed, source-file order, comment-block permutation, cache-history step) tuple; every variant '
                'is non-trivial by construction: it differs from the baseline (hash seed 0, canonical order, cache disabled) in at '
                'least one of those coordinates',
        'samples': [sample],
        'jobs': len(results),
        'jobs_per_hour': int(len(results) / wall * 3600),
        'scanner_runs_per_hour': int((nvar + len(results)) / wall * 3600),
        'worker_processes': workers,
        'simulated_time': 'not applicable: C16 has no clock; cache histories use fixed far-past / far-future mtimes so that no outcome depends on the wall clock',
        'hash_seeds_used': seeds,
        'dependency_shapes': dict(collections.Counter(r['shape'] for r in results)),
        'declarations_total': sum(r['ndecls'] for r in results),
        'comment_blocks_total': sum(r['ncomments'] for r in results),
        'baseline_exit_statuses': dict(collections.Counter(str(r['baseline_status']) for r in results)),
        'cache_history_steps_and_observed_effect': dict(sorted(eff.items())),
        'fault_kinds': {'truncated cache entry': sum(v for k, v in eff.items() if k.startswith('truncate')),
                        'garbage cache entry': sum(v for k, v in eff.items() if k.startswith('garbage')),
                        'empty cache entry': sum(v for k, v in eff.items() if k.startswith('empty_entry')),
                        'stale cache entry (dependency touched)': sum(v for k, v in eff.items() if k.startswith('stale')),
                        'version stamp removed': sum(v for k, v in eff.items() if k.startswith('del_stamp')),
                        'scanner upgraded': sum(v for k, v in eff.items() if k.startswith('upgrade')),
                        'entry written under another hash seed': sum(v for k, v in eff.items() if k.startswith('warm_other_seed'))},
        'observation_sibling_groups_in_ascending_name_order': {
            'groups': sum(g for g, s in sobs), 'ascending': sum(s for g, s in sobs),
            'note': 'not a gate: C16 asks for a fixed function of names and kinds, which byte-equality across arrival orders decides'},
        'real_components': ['giscanner/scannermain.py:scanner_main (all of it, create_source_scanner included when the C preprocessor runs: seam = %s)' % (
                                'the C extension class only; sourcescanner.py and the gcc -E run through ccompiler.py are real' if cal.get('low_seam') else
                                'create_source_scanner (no usable C preprocessor found)'),
                            'sourcescanner.py (Python side)', 'transformer.py', 'maintransformer.py',
                            'annotationparser.py', 'introspectablepass.py', 'girwriter.py', 'xmlwriter.py', 'girparser.py', 'cachestore.py (real file system)', 'ast.py', 'message.py', 'utils.py'],
        'stub_components': ['C lexer/parser extension -> sim/cfront.py (calibrated)', 'pkg-config -> /bin/true',
                            'introspection binary -> script answering functions.txt from a table, run through the real --program subprocess path',
                            'GLib-2.0.gir / GObject-2.0.gir / Gio-2.0.gir -> minimal synthetic stand-ins in sim/fixtures (the real ones are build products)'],
        'calibration': {k: v for k, v in cal.items() if k != 'problems'},
        'variant_execution': 'variants run in-process in per-hash-seed servers; any difference is re-checked with every run in a pristine forked child before it is reported; baselines and dependency scans always run in pristine forked children',
        'differences_seen_only_in_process': sum(1 for r in results if r.get('inproc_only')),
        'jobs_run_entirely_in_pristine_forked_children': sum(1 for r in results if r.get('fork_mode')),
        'known_findings_matched': known_hits, 'fixed_findings_in_force': [f for f in fixed if 'property=C16' in f],
        'violations_reported': reported,
    }


if __name__ == '__main__':
    try:
        code = main()
    except Exception:
        import traceback
        traceback.print_exc()
        print('HARNESS-FAILURE unexpected exception in the check driver')
        code = core.EXIT_HARNESS
    sys.stdout.flush()
    try:
        from sim import scansim as _s
        if _s._servers is not None:
            _s._servers.stop_all()
    except Exception:
        pass
    os._exit(code) if code else sys.exit(0)
