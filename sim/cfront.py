"""Stub front end for engine E2: turns structured C declarations into the symbol stream the real
lexer/parser (scannerparser.y, sourcescanner.c, giscannermodule.c) would hand to the scanner,
wrapped in the real giscanner.sourcescanner.SourceSymbol/SourceType classes.  The rules are
those of DESIGN.md Appendix A and are confirmed by the calibration cases in scansim.py.

A declaration is a plain JSON-able dict (so jobs can be written to replay files):

  {'k': 'function', 'name': 'foo_bar', 'ret': T, 'params': [[name|None, T], ...], 'varargs': bool, 'inline': bool}
  {'k': 'typedef_struct_fwd', 'name': 'FooBar', 'tag': '_FooBar', 'union': bool}      typedef struct _FooBar FooBar;
  {'k': 'struct_def', 'tag': '_FooBar', 'members': [M...], 'union': bool}              struct _FooBar { ... };
  {'k': 'typedef_struct', 'name': 'FooBar', 'tag': '_FooBar'|None, 'members': [...], 'union': bool}
  {'k': 'typedef_enum', 'name': 'FooKind', 'members': [[ident, value], ...], 'flags': bool}
  {'k': 'typedef_callback', 'name': 'FooFunc', 'ret': T, 'params': [...], 'pointer': bool}
  {'k': 'typedef_alias', 'name': 'FooInt', 'type': T}
  {'k': 'define', 'name': 'FOO_X', 'value': int|str|float|bool, 'ctype': None|'guint8'|...}
  {'k': 'extern_var', 'name': 'foo_global', 'type': T}
  plus 'file' and 'line' on every declaration.

  member M: {'name': str|None, 'type': T, 'private': bool, 'bits': int|None}
  type T:   ['void'] | ['basic', 'unsigned int'] | ['named', 'gint'] | ['struct', '_Tag'] | ['union', '_Tag']
            | ['enum', 'Tag'] | ['ptr', T] | ['const', T] | ['array', T, n|None] | ['func', T, params]
            | ['anon_struct', members] | ['anon_union', members]
"""

(CSYMBOL_TYPE_INVALID, CSYMBOL_TYPE_ELLIPSIS, CSYMBOL_TYPE_CONST, CSYMBOL_TYPE_OBJECT,
 CSYMBOL_TYPE_FUNCTION, CSYMBOL_TYPE_FUNCTION_MACRO, CSYMBOL_TYPE_STRUCT, CSYMBOL_TYPE_UNION,
 CSYMBOL_TYPE_ENUM, CSYMBOL_TYPE_TYPEDEF, CSYMBOL_TYPE_MEMBER) = range(11)
(CTYPE_INVALID, CTYPE_VOID, CTYPE_BASIC_TYPE, CTYPE_TYPEDEF, CTYPE_STRUCT, CTYPE_UNION, CTYPE_ENUM,
 CTYPE_POINTER, CTYPE_ARRAY, CTYPE_FUNCTION) = range(10)
TYPE_QUALIFIER_CONST = 1 << 1
FUNCTION_INLINE = 1 << 1


class FType(object):
    """Shape of the C extension's SourceType object."""
    __slots__ = ('type', 'base_type', 'name', 'type_qualifier', 'child_list', 'is_bitfield',
                 'function_specifier')

    def __init__(self, type_, name=None, base_type=None, child_list=None):
        self.type = type_
        self.name = name
        self.base_type = base_type
        self.type_qualifier = 0
        self.child_list = child_list if child_list is not None else []
        self.is_bitfield = False
        self.function_specifier = 0


class FSym(object):
    """Shape of the C extension's SourceSymbol object."""
    __slots__ = ('type', 'ident', 'base_type', 'const_int', 'const_double', 'const_string',
                 'const_boolean', 'source_filename', 'line', 'private')

    def __init__(self, type_, ident, base_type=None, filename=None, line=0):
        self.type = type_
        self.ident = ident
        self.base_type = base_type
        self.const_int = None
        self.const_double = None
        self.const_string = None
        self.const_boolean = None
        self.source_filename = filename
        self.line = line
        self.private = False


def build_type(t, filename, line):
    k = t[0]
    if k == 'void':
        return FType(CTYPE_VOID, 'void')
    if k == 'basic':
        return FType(CTYPE_BASIC_TYPE, t[1])
    if k == 'named':
        return FType(CTYPE_TYPEDEF, t[1])
    if k == 'struct':
        return FType(CTYPE_STRUCT, t[1])
    if k == 'union':
        return FType(CTYPE_UNION, t[1])
    if k == 'enum':
        return FType(CTYPE_ENUM, t[1])
    if k == 'ptr':
        return FType(CTYPE_POINTER, None, build_type(t[1], filename, line))
    if k == 'const':
        inner = build_type(t[1], filename, line)
        inner.type_qualifier |= TYPE_QUALIFIER_CONST
        return inner
    if k == 'array':
        children = []
        if t[2] is not None:
            c = FSym(CSYMBOL_TYPE_CONST, None, None, filename, line)
            c.const_int = t[2]
            children.append(c)
        return FType(CTYPE_ARRAY, None, build_type(t[1], filename, line), children)
    if k == 'func':
        return FType(CTYPE_FUNCTION, None, build_type(t[1], filename, line),
                     build_params(t[2], False, filename, line))
    if k in ('anon_struct', 'anon_union'):
        return FType(CTYPE_STRUCT if k == 'anon_struct' else CTYPE_UNION, None, None,
                     build_members(t[1], filename, line))
    raise ValueError('unknown type %r' % (t,))


def build_params(params, varargs, filename, line):
    out = []
    for name, t in params:
        out.append(FSym(CSYMBOL_TYPE_INVALID, name, build_type(t, filename, line), filename, line))
    if varargs:
        out.append(FSym(CSYMBOL_TYPE_ELLIPSIS, None, None, filename, line))
    return out


def build_members(members, filename, line):
    out = []
    for i, m in enumerate(members):
        s = FSym(CSYMBOL_TYPE_MEMBER, m.get('name'), build_type(m['type'], filename, line + 1 + i), filename, line + 1 + i)
        s.private = bool(m.get('private'))
        if m.get('bits') is not None:
            s.const_int = m['bits']
        out.append(s)
    return out


def symbols_of(decl):
    """The symbols one declaration appends to get_symbols(), in order (Appendix A)."""
    k = decl['k']
    f, ln = decl['file'], decl['line']
    if k == 'function':
        ret = build_type(decl['ret'], f, ln)
        if decl.get('inline'):
            ret.function_specifier |= FUNCTION_INLINE
        ft = FType(CTYPE_FUNCTION, None, ret, build_params(decl['params'], decl.get('varargs'), f, ln))
        return [FSym(CSYMBOL_TYPE_FUNCTION, decl['name'], ft, f, ln)]
    if k == 'typedef_struct_fwd':
        ct = CTYPE_UNION if decl.get('union') else CTYPE_STRUCT
        return [FSym(CSYMBOL_TYPE_TYPEDEF, decl['name'], FType(ct, decl['tag']), f, ln)]
    if k == 'struct_def':
        ct = CTYPE_UNION if decl.get('union') else CTYPE_STRUCT
        st = CSYMBOL_TYPE_UNION if decl.get('union') else CSYMBOL_TYPE_STRUCT
        # the symbol carries the line on which the definition ends ("};"), as the real parser's
        # does (calibrated on tests/scanner/typedefs.h)
        end = decl.get('end') or ln + 1 + len(decl['members'])
        return [FSym(st, decl['tag'], FType(ct, decl['tag'], None, build_members(decl['members'], f, ln)), f, end)]
    if k == 'typedef_struct':
        ct = CTYPE_UNION if decl.get('union') else CTYPE_STRUCT
        st = CSYMBOL_TYPE_UNION if decl.get('union') else CSYMBOL_TYPE_STRUCT
        out = []
        members = build_members(decl['members'], f, ln)
        end = ln + 1 + len(decl['members'])
        if decl.get('tag'):
            out.append(FSym(st, decl['tag'], FType(ct, decl['tag'], None, members), f, end))
        out.append(FSym(CSYMBOL_TYPE_TYPEDEF, decl['name'], FType(ct, decl.get('tag'), None, list(members)), f, end))
        return out
    if k == 'typedef_enum':
        children = []
        for i, (ident, value) in enumerate(decl['members']):
            c = FSym(CSYMBOL_TYPE_OBJECT, ident, None, f, ln + 1 + i)
            c.const_int = value
            children.append(c)
        et = FType(CTYPE_ENUM, None, None, children)
        et.is_bitfield = bool(decl.get('flags'))
        return [FSym(CSYMBOL_TYPE_TYPEDEF, decl['name'], et, f, decl.get('end') or ln + 1 + len(children))]
    if k == 'typedef_callback':
        ft = FType(CTYPE_FUNCTION, None, build_type(decl['ret'], f, ln),
                   build_params(decl['params'], decl.get('varargs'), f, ln))
        if decl.get('pointer', True):
            ft = FType(CTYPE_POINTER, None, ft)
        return [FSym(CSYMBOL_TYPE_TYPEDEF, decl['name'], ft, f, ln)]
    if k == 'typedef_alias':
        return [FSym(CSYMBOL_TYPE_TYPEDEF, decl['name'], build_type(decl['type'], f, ln), f, ln)]
    if k == 'define':
        s = FSym(CSYMBOL_TYPE_CONST, decl['name'], None, f, ln)
        v = decl['value']
        if isinstance(v, bool):
            s.const_boolean = v
        elif isinstance(v, int):
            s.const_int = v
            if decl.get('ctype'):
                ct = decl['ctype']
                s.base_type = FType(CTYPE_BASIC_TYPE, ct) if ct in ('gint64', 'guint64') else FType(CTYPE_TYPEDEF, ct)
        elif isinstance(v, float):
            s.const_double = v
        else:
            s.const_string = v
        return [s]
    if k == 'extern_var':
        return [FSym(CSYMBOL_TYPE_OBJECT, decl['name'], build_type(decl['type'], f, ln), f, ln)]
    if k == 'function_macro':
        # #define NAME(a,b) ... : kind FUNCTION_MACRO, chain FUNCTION(child_list), parameters untyped
        params = [FSym(CSYMBOL_TYPE_INVALID, n, None, f, ln) for n in decl['params']]
        return [FSym(CSYMBOL_TYPE_FUNCTION_MACRO, decl['name'], FType(CTYPE_FUNCTION, None, None, params), f, ln)]
    raise ValueError('unknown declaration %r' % (k,))


# ---------------------------------------------------------------------------------------
# Rendering to C text (for samples and replay files only; nothing parses it)
# ---------------------------------------------------------------------------------------

def c_type(t, declarator=''):
    k = t[0]
    if k == 'void':
        return ('void ' + declarator).strip()
    if k in ('basic', 'named'):
        return (t[1] + ' ' + declarator).strip()
    if k in ('struct', 'union', 'enum'):
        return ('%s %s %s' % (k, t[1], declarator)).strip()
    if k == 'ptr':
        if t[1][0] == 'func':
            return c_type(t[1], '(*%s)' % declarator)
        return c_type(t[1], '*' + declarator)
    if k == 'const':
        return 'const ' + c_type(t[1], declarator)
    if k == 'array':
        return c_type(t[1], '%s[%s]' % (declarator, '' if t[2] is None else t[2]))
    if k == 'func':
        return c_type(t[1], '%s (%s)' % (declarator, c_params(t[2], False)))
    if k in ('anon_struct', 'anon_union'):
        return '%s { %s } %s' % (k[5:], ' '.join(c_member(m) for m in t[1]), declarator)
    return '?'


def c_params(params, varargs):
    ps = [c_type(t, n or '') for n, t in params]
    if varargs:
        ps.append('...')
    return ', '.join(ps) if ps else 'void'


def c_member(m):
    s = c_type(m['type'], m.get('name') or '')
    if m.get('bits') is not None:
        s += ' : %d' % m['bits']
    return ('/*< private >*/ ' if m.get('private') else '') + s + ';'


def c_text(decl):
    k = decl['k']
    su = 'union' if decl.get('union') else 'struct'
    if k == 'function':
        return '%s%s (%s);' % ('static inline ' if decl.get('inline') else '', c_type(decl['ret'], decl['name']),
                               c_params(decl['params'], decl.get('varargs')))
    if k == 'typedef_struct_fwd':
        return 'typedef %s %s %s;' % (su, decl['tag'], decl['name'])
    if k == 'struct_def':
        return '%s %s { %s };' % (su, decl['tag'], ' '.join(c_member(m) for m in decl['members']))
    if k == 'typedef_struct':
        return 'typedef %s %s{ %s } %s;' % (su, (decl['tag'] + ' ') if decl.get('tag') else '',
                                           ' '.join(c_member(m) for m in decl['members']), decl['name'])
    if k == 'typedef_enum':
        return 'typedef enum { %s } %s;' % (', '.join('%s = %d' % (i, v) for i, v in decl['members']), decl['name'])
    if k == 'typedef_callback':
        d = '(*%s)' % decl['name'] if decl.get('pointer', True) else decl['name']
        return 'typedef %s (%s);' % (c_type(decl['ret'], d), c_params(decl['params'], decl.get('varargs')))
    if k == 'typedef_alias':
        return 'typedef %s;' % c_type(decl['type'], decl['name'])
    if k == 'define':
        v = decl['value']
        if isinstance(v, bool):
            v = 'TRUE' if v else 'FALSE'
        elif isinstance(v, str):
            v = '"%s"' % v
        elif decl.get('ctype'):
            v = '((%s) %s)' % (decl['ctype'], v)
        return '#define %s %s' % (decl['name'], v)
    if k == 'extern_var':
        return 'extern %s;' % c_type(decl['type'], decl['name'])
    if k == 'function_macro':
        return '#define %s(%s) (...)' % (decl['name'], ', '.join(decl['params']))
    return '/* ? */'


class StubSourceScanner(object):
    """What scannermain.create_source_scanner returns in E2: get_symbols/get_comments/get_errors
    with the real wrapper classes around the fake C objects."""

    def __init__(self, decls, comments, keep_files):
        self._decls = decls
        self._comments = comments
        self._keep = set(keep_files)

    def get_symbols(self):
        from giscanner.sourcescanner import SourceSymbol
        for d in self._decls:
            # the real scanner only keeps symbols from files named on the command line
            if d['file'] not in self._keep:
                continue
            for s in symbols_of(d):
                yield SourceSymbol(None, s)

    def get_comments(self):
        return [tuple(c) for c in self._comments]

    def get_errors(self):
        return []


class FakeCSourceScanner(object):
    """Stand-in for the C extension class giscanner._giscanner.SourceScanner, one level below
    StubSourceScanner: the project's own Python SourceScanner (file lists, realpath, which files
    are lexed as sources and which are #included, the preprocessor run through CCompiler) stays
    real and drives this object as it drives the C lexer.  What the C side would have found in the
    files comes from the job: the comments of a file lexed with lex_filename(), and - for
    parse_file() on the preprocessor's output - the symbols and comments of the named headers in
    the order in which the preprocessor reached them (its `# <line> "<file>"` markers)."""

    decls = []                # configured per scanner run (scanchild.run_scanner)
    comments = []
    comments_override = None
    used = 0

    def __init__(self):
        type(self).used += 1
        self._files = []
        self._lexed = []
        self._parsed = []

    def append_filename(self, filename):
        self._files.append(filename)

    def lex_filename(self, filename):
        self._lexed.append(filename)
        return True

    def parse_file(self, path):
        import re
        known = set(self._files)
        with open(path, 'r', errors='replace') as f:
            for line in f:
                if line.startswith('#'):
                    m = re.match(r'#(?:line)? *\d+ "(.*)"', line)
                    if m:
                        name = m.group(1)
                        if name in known and name not in self._parsed:
                            self._parsed.append(name)
        return True

    def parse_macros(self, filenames):
        pass

    def set_macro_scan(self, value):
        pass

    def get_symbols(self):
        out = []
        for f in self._parsed:
            for d in self.decls:
                if d['file'] == f:
                    out.extend(symbols_of(d))
        return out

    def get_comments(self):
        if self.comments_override is not None:
            return [tuple(c) for c in self.comments_override]
        return [tuple(c) for f in self._lexed + self._parsed for c in self.comments if c[1] == f]

    def get_errors(self):
        return []
