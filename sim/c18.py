"""Check driver for property C18 (engine E1 cachesim + the E2 cache-history slice).

    python sim/c18.py [--tier quick|thorough] [--runs N] [--replay FILE] [--digests i,j,k]

Exit 0: held on everything explored (KNOWN-FINDING lines may be printed);
exit 1: `VIOLATION property=C18 replay=<path>`; exit 2: harness failure (never a verdict).
"""
import argparse
import collections
import copy
import json
import os
import subprocess
import sys
import time

sys.path.insert(0, os.path.dirname(os.path.dirname(os.path.abspath(__file__))))
from sim import core          # noqa: E402

PROP = 'C18'


def _exec_coarse(args):
    from sim import cachesim
    root, index, thorough = args
    res = cachesim.execute(cachesim.make_spec(root, index, thorough, coarse_clock=True))
    return {'harness_error': res['harness_error'], 'gran': None,
            'signatures': sorted({v['signature'] for v in res['violations']})}


def _exec_index(args):
    from sim import cachesim
    root, index, thorough = args
    spec = cachesim.make_spec(root, index, thorough)
    res = cachesim.execute(spec)
    if not res['violations'] and not res['harness_error']:
        res.pop('decisions', None)       # keep the pipe traffic small
    return res


# ---------------------------------------------------------------------------------------
# Minimisation: delta debugging over (workload, fault decisions, pre-emptions, knobs)
# ---------------------------------------------------------------------------------------

def _nprocs(workload):
    return sum(len(ep['procs']) for ep in workload)


def _flat(decisions):
    return [d for ep in decisions for d in ep]


def _drop_local(dec, idx):
    out = []
    for d in dec:
        if d[1] == idx:
            continue
        d = list(d)
        if d[1] > idx:
            d[1] -= 1
        out.append(d)
    return out


def _is_fault(d):
    return d[0] not in ('run', 'env')


class Minimiser(object):
    """Delta debugging over the whole counterexample: epochs, processes, operations,
    environment events, fired faults, pre-emptions and size knobs.  A candidate is kept only if
    it still violates the same oracle clause; its decisions are then re-recorded from what the
    run actually took, so the final replay file is exact."""

    def __init__(self, spec, result, clause, budget_runs=2500, budget_s=120, signature=None):
        from sim import cachesim
        self.cs = cachesim
        self.clause = clause
        self.signature = signature       # when given, candidates must keep the same signature
        self.spec = copy.deepcopy(spec)
        self.spec['decisions'] = result['decisions']
        self.result = result
        self.runs = 0
        self.budget_runs = budget_runs
        self.deadline = time.monotonic() + budget_s
        self.orig = self.size(self.spec)

    @staticmethod
    def size(spec):
        flat = _flat(spec['decisions'])
        return {'ops': sum(len(p) for ep in spec['workload'] for p in ep['procs']),
                'procs': _nprocs(spec['workload']), 'epochs': len(spec['workload']),
                'env_events': sum(len(ep['env']) for ep in spec['workload']),
                'decisions': len(flat), 'faults': sum(1 for d in flat if _is_fault(d)),
                'preemptions': sum(count_preemptions(ep) for ep in spec['decisions'])}

    def out_of_budget(self):
        return self.runs >= self.budget_runs or time.monotonic() > self.deadline

    def try_(self, cand):
        if self.out_of_budget():
            return False
        self.runs += 1
        res = self.cs.execute(cand)
        if res['harness_error']:
            return False
        if any(v['clause'] == self.clause and (self.signature is None or v['signature'] == self.signature)
               for v in res['violations']):
            cand['decisions'] = res['decisions']     # re-record what was actually taken
            # epochs after the violating one never ran: drop them from the workload as well
            del cand['workload'][len(res['decisions']):]
            self.spec = cand
            self.result = res
            return True
        return False

    def run(self):
        self.try_(copy.deepcopy(self.spec))          # truncates epochs after the violation
        changed = True
        while changed and not self.out_of_budget():
            changed = False
            changed |= self.pass_knobs()
            changed |= self.pass_epochs()
            changed |= self.pass_procs()
            changed |= self.pass_ops()
            changed |= self.pass_env()
            changed |= self.pass_faults()
            changed |= self.pass_preemptions()
        return self.spec, self.result

    def pass_epochs(self):
        ch = False
        ei = len(self.spec['workload']) - 2          # the last epoch holds the violation
        while ei >= 0:
            if ei < len(self.spec['workload']) - 1:
                cand = copy.deepcopy(self.spec)
                env = cand['workload'][ei]['env']
                del cand['workload'][ei]
                del cand['decisions'][ei]
                cand['workload'][ei]['env'] = env + cand['workload'][ei]['env']
                if self.try_(cand):
                    ch = True
            ei -= 1
        return ch

    def pass_procs(self):
        ch = False
        for ei in range(len(self.spec['workload']) - 1, -1, -1):
            pi = len(self.spec['workload'][ei]['procs']) - 1
            while pi >= 0:
                procs = self.spec['workload'][ei]['procs']
                if pi < len(procs) and len(procs) > 1:
                    cand = copy.deepcopy(self.spec)
                    del cand['workload'][ei]['procs'][pi]
                    cand['decisions'][ei] = _drop_local(cand['decisions'][ei], pi)
                    if self.try_(cand):
                        ch = True
                pi -= 1
        return ch

    def pass_ops(self):
        ch = False
        for ei in range(len(self.spec['workload']) - 1, -1, -1):
            if ei >= len(self.spec['workload']):
                continue
            for pi in range(len(self.spec['workload'][ei]['procs']) - 1, -1, -1):
                if pi >= len(self.spec['workload'][ei]['procs']):
                    continue
                oi = len(self.spec['workload'][ei]['procs'][pi]) - 1
                while oi >= 0:
                    if ei < len(self.spec['workload']) and pi < len(self.spec['workload'][ei]['procs']):
                        cand = copy.deepcopy(self.spec)
                        ops = cand['workload'][ei]['procs'][pi]
                        if oi < len(ops):
                            del ops[oi]
                            if self.try_(cand):
                                ch = True
                    oi -= 1
        return ch

    def pass_env(self):
        ch = False
        for ei in range(len(self.spec['workload']) - 1, -1, -1):
            if ei >= len(self.spec['workload']):
                continue
            vi = len(self.spec['workload'][ei]['env']) - 1
            while vi >= 0:
                if ei < len(self.spec['workload']):
                    cand = copy.deepcopy(self.spec)
                    env = cand['workload'][ei]['env']
                    if vi < len(env):
                        del env[vi]
                        if self.try_(cand):
                            ch = True
                vi -= 1
        return ch

    def pass_faults(self):
        ch = False
        for ei in range(len(self.spec['decisions']) - 1, -1, -1):
            i = len(self.spec['decisions'][ei]) - 1
            while i >= 0:
                if ei < len(self.spec['decisions']):
                    dec = self.spec['decisions'][ei]
                    if i < len(dec) and _is_fault(dec[i]):
                        cand = copy.deepcopy(self.spec)
                        cand['decisions'][ei][i] = ['run', dec[i][1]]
                        if self.try_(cand):
                            ch = True
                i -= 1
        return ch

    def pass_knobs(self):
        ch = False
        ladders = (('ntypes', [0, 1, 2, 5]), ('include_base', [False]),
                   ('stdio_buffer', [65536, 8192, 1024, 256]), ('copy_chunk', [65536, 4096, 256, 64]),
                   ('tmp_same_device', [True]), ('xdg', [True]))
        for key, ladder in ladders:
            cur = self.spec['config'][key]
            for simple in ladder:
                if simple == cur:
                    break
                if key == 'ntypes' and simple > cur:
                    break
                if key in ('stdio_buffer', 'copy_chunk') and simple < cur:
                    break
                cand = copy.deepcopy(self.spec)
                cand['config'][key] = simple
                if self.try_(cand):
                    ch = True
                    break
        return ch

    def pass_preemptions(self):
        """Drive the schedule towards sequential: wherever the schedule switches process, try
        letting the previous process continue instead (pull its next block forward)."""
        ch = False
        for ei in range(len(self.spec['decisions']) - 1, -1, -1):
            i = 1
            while ei < len(self.spec['decisions']) and i < len(self.spec['decisions'][ei]) and not self.out_of_budget():
                dec = self.spec['decisions'][ei]
                if dec[i][1] != dec[i - 1][1]:
                    prev = dec[i - 1][1]
                    j = i
                    while j < len(dec) and dec[j][1] != prev:
                        j += 1
                    if j < len(dec):
                        blk_end = j
                        while blk_end < len(dec) and dec[blk_end][1] == prev:
                            blk_end += 1
                        cand = copy.deepcopy(self.spec)
                        cand['decisions'][ei] = dec[:i] + dec[j:blk_end] + dec[i:j] + dec[blk_end:]
                        if self.try_(cand):
                            ch = True
                            continue
                i += 1
        return ch


def count_preemptions(decisions):
    return sum(1 for a, b in zip(decisions, decisions[1:]) if a[1] != b[1])


# ---------------------------------------------------------------------------------------

def replay_file(path):
    from sim import cachesim
    doc = json.load(open(path))
    spec = {k: doc[k] for k in ('config', 'workload', 'decisions')}
    spec['thorough'] = doc.get('thorough', False)
    res = cachesim.execute(spec, want_log=True)
    return doc, res


def cmd_replay(path, verbose=True):
    if json.load(open(path)).get('engine') == 'scansim':
        from sim import c16
        return c16.replay(path, verbose)[0]
    doc, res = replay_file(path)
    want = doc['violation']
    if res['harness_error']:
        print('HARNESS-FAILURE during replay: %s' % res['harness_error'])
        return core.EXIT_HARNESS
    same = [v for v in res['violations'] if v['clause'] == want['clause'] and v['signature'] == want['signature']]
    if verbose:
        for ev in res['log']:
            print('  %5d t=%-14d p%-2d %-22s %-60s ino=%-4s %-10s %s' % (
                ev[0], ev[1] - 1_000_000 * 10**9, ev[2], ev[3], (ev[4] or '').replace(cachesim_root(), ''),
                ev[5], ev[6], ev[7] if ev[7] is not None else ''))
    if same:
        ok_digest = res['digest'] == doc.get('digest')
        print('replay reproduces %s %s (event-log digest %s)' % (
            want['clause'], want['signature'], 'identical' if ok_digest else 'DIFFERS'))
        print(json.dumps(same[0]['detail'], indent=1, default=str))
        print('VIOLATION property=%s replay=%s' % (PROP, path))
        return core.EXIT_VIOLATION
    print('replay did NOT reproduce %s (decisions inapplicable: %d; violations now: %s)' % (
        want['signature'], res['inapplicable'], [v['signature'] for v in res['violations']]))
    return core.EXIT_HELD


def cachesim_root():
    from sim.simfs import SIM_ROOT
    return SIM_ROOT


def fresh_interpreter(args, hashseed, timeout=600):
    env = dict(os.environ)
    env['PYTHONHASHSEED'] = str(hashseed)
    env['VERIF_NO_REEXEC'] = '1'
    p = subprocess.run([sys.executable, os.path.abspath(__file__)] + args, env=env, stdout=subprocess.PIPE,
                       stderr=subprocess.PIPE, timeout=timeout, text=True)
    return p


def determinism_selftest(root, indices, thorough, batch_digests):
    """Same PRNG value twice in-process, and once in a fresh interpreter under another hash
    seed; all event-log digests must agree with what the worker pool produced."""
    problems = []
    mine = {}
    for i in indices:
        r = _exec_index((root, i, thorough))
        mine[i] = r['digest']
        if i in batch_digests and batch_digests[i] != r['digest']:
            problems.append('run %d: pool digest %s != in-process digest %s' % (i, batch_digests[i][:12], r['digest'][:12]))
        r2 = _exec_index((root, i, thorough))
        if r2['digest'] != r['digest']:
            problems.append('run %d: two in-process executions differ' % i)
    fresh_n = 0
    for hs in (1, 4242):
        p = fresh_interpreter(['--digests', ','.join(map(str, indices)), '--tier', 'thorough' if thorough else 'quick'], hs)
        if p.returncode != 0:
            problems.append('fresh interpreter (PYTHONHASHSEED=%d) failed: %s' % (hs, p.stderr[-400:]))
            continue
        other = json.loads(p.stdout.strip().splitlines()[-1])
        for i in indices:
            fresh_n += 1
            if other.get(str(i)) != mine[i]:
                problems.append('run %d: digest differs under PYTHONHASHSEED=%d' % (i, hs))
    return problems, {'in_process_pairs': len(indices), 'fresh_interpreter_runs': fresh_n,
                      'hash_seeds': [0, 1, 4242]}


def main():
    ap = argparse.ArgumentParser()
    ap.add_argument('--tier', default=None)
    ap.add_argument('--runs', type=int, default=None)
    ap.add_argument('--replay', default=None)
    ap.add_argument('--digests', default=None)
    ap.add_argument('--quiet-replay', action='store_true')
    ap.add_argument('--no-slice', action='store_true')
    a = ap.parse_args()
    if not os.environ.get('VERIF_NO_REEXEC'):
        core.ensure_hashseed('0')
    core.repo_import_path()
    tier = a.tier or core.tier()
    thorough = tier == 'thorough'
    root = core.verif_seed()

    if a.digests:
        out = {}
        for i in map(int, a.digests.split(',')):
            out[str(i)] = _exec_index((root, i, thorough))['digest']
        print(json.dumps(out))
        return 0
    if a.replay:
        return cmd_replay(a.replay, verbose=not a.quiet_replay)

    t0 = time.monotonic()
    nruns = a.runs or (120000 if thorough else 7000)
    budget = float(os.environ.get('VERIF_BUDGET_S', 1500 if thorough else 150))
    jobs = int(os.environ.get('VERIF_JOBS', min(core.ncpu(), 8)))
    print('[C18] engine=cachesim tier=%s VERIF_SEED=%d runs<=%d jobs=%d' % (tier, root, nruns, jobs), flush=True)

    # 0. simulator conformance self-test (DESIGN.md §3.11)
    from sim import conformance
    conf = conformance.run(root, 300 if thorough else 80)
    if conf['problems']:
        for pr in conf['problems'][:10]:
            print('HARNESS-FAILURE simfs conformance: %s' % pr)
        return core.EXIT_HARNESS

    try:
        results = core.pmap(_exec_index, [(root, i, thorough) for i in range(nruns)], jobs=jobs, chunk=16, wall_per_chunk=180,
                            budget_s=budget, min_items=nruns // 2, hard_budget_s=3 * budget)
    except core.WorkerDied as e:
        print('HARNESS-FAILURE %s' % e)
        return core.EXIT_HARNESS
    sim_wall = time.monotonic() - t0

    herrs = [r for r in results if r['harness_error']]
    if herrs:
        for r in herrs[:5]:
            print('HARNESS-FAILURE run %s: %s' % (r['run_index'], r['harness_error'][:2000]))
        return core.EXIT_HARNESS

    # 1. determinism self-test on a sample of the batch
    n_det = 24 if thorough else 8
    step = max(1, len(results) // n_det)
    sample = [results[i]['run_index'] for i in range(0, len(results), step)][:n_det]
    problems, det_info = determinism_selftest(root, sample, thorough, {r['run_index']: r['digest'] for r in results})
    if problems:
        for pr in problems[:10]:
            print('HARNESS-FAILURE determinism: %s' % pr)
        return core.EXIT_HARNESS

    # 2. aggregate
    agg = aggregate(results)

    # 3. violations: one per distinct signature, lowest run index first; minimise, replay, classify
    known, fixed = core.load_known()
    by_sig = collections.OrderedDict()
    for r in results:
        for v in r['violations']:
            by_sig.setdefault(v['signature'], (r, v))
    exit_code = core.EXIT_HELD
    reported = []
    known_hits = []
    seen_min = set()
    for sig, (r, v) in list(by_sig.items())[:8]:
        from sim import cachesim
        spec = cachesim.make_spec(root, r['run_index'], thorough)
        m = Minimiser(spec, r, v['clause'], signature=v['signature'])
        mspec, mres = m.run()
        mv = [x for x in mres['violations'] if x['signature'] == v['signature']][0]
        if mv['signature'] in seen_min:
            continue
        seen_min.add(mv['signature'])
        doc = {'engine': 'cachesim', 'property': PROP, 'verif_seed': root, 'run_index': r['run_index'],
               'seed': spec['seed'], 'thorough': thorough, 'config': mspec['config'],
               'workload': mspec['workload'], 'decisions': mspec['decisions'], 'violation': mv,
               'digest': mres['digest'], 'found_as': v['signature'],
               'minimised_from': m.orig, 'minimised_to': Minimiser.size(mspec),
               'minimiser_runs': m.runs}
        path = core.write_replay(PROP, '%d-%d' % (root, r['run_index']), doc)
        p = fresh_interpreter(['--replay', path, '--quiet-replay'], 7)
        reproduced = p.returncode == core.EXIT_VIOLATION and 'digest identical' in p.stdout
        if not reproduced:
            print('HARNESS-FAILURE replay of %s in a fresh interpreter did not reproduce it exactly:\n%s\n%s' % (
                path, p.stdout[-1500:], p.stderr[-1500:]))
            return core.EXIT_HARNESS
        k = core.match_known(known, PROP, mv['signature'])
        if k is not None:
            print('KNOWN-FINDING: property=%s %s' % (PROP, k['line'][6:].strip()))
            known_hits.append(mv['signature'])
            continue
        exit_code = core.EXIT_VIOLATION
        reported.append({'signature': mv['signature'], 'replay': path, 'run_index': r['run_index']})
        print('violation %s (run %d; minimised %s -> %s)' % (mv['signature'], r['run_index'], doc['minimised_from'], doc['minimised_to']))
        print(json.dumps(mv['detail'], default=str)[:1200])
        print('VIOLATION property=%s replay=%s' % (PROP, path))

    if exit_code == core.EXIT_HELD and agg['probes'].get('load_hit', 0) == 0:
        # a cache that never hits satisfies C18 vacuously; a batch without a single hit says nothing
        print('HARNESS-FAILURE no cache hit in the whole batch: the workload does not exercise the cache')
        return core.EXIT_HARNESS

    # 3b. observation family: coarse time stamps (DESIGN.md §3.7) -- counted, never a verdict
    coarse = None
    try:
        cres = core.pmap(_exec_coarse, [(root, i, thorough) for i in range(3000 if thorough else 400)], jobs=jobs,
                         chunk=16, wall_per_chunk=180, budget_s=120 if thorough else 20)
        sigs = collections.Counter(s for r in cres for s in r['signatures'])
        coarse = {'runs': len(cres), 'runs_with_a_stale_or_other_oracle_hit': sum(1 for r in cres if r['signatures']),
                  'by_signature': dict(sigs),
                  'note': 'clock granularity 4 ms / 1 s / 2 s: a source rewritten twice (or a scanner installation changed twice) within '
                          'one tick keeps its mtime, so no mtime comparison can see the second change; an observation, never a verdict'}
    except core.WorkerDied:
        coarse = {'runs': 0, 'note': 'observation family did not complete'}

    # 4. the E2 cache-history slice ("using the cache never changes the emitted GIR")
    slice_info = None
    if not a.no_slice:
        try:
            from sim import scansim
        except ImportError:
            scansim = None
        if scansim is not None:
            slice_info, slice_code = scansim.c18_slice(root, thorough)
            if slice_code == core.EXIT_HARNESS:
                return core.EXIT_HARNESS
            if slice_code == core.EXIT_VIOLATION:
                exit_code = core.EXIT_VIOLATION

    wall = time.monotonic() - t0
    cov = build_coverage(results, agg, sim_wall, det_info, conf, known_hits, fixed, reported, slice_info, jobs)
    cov['observation_coarse_clock'] = coarse
    core.write_evidence(PROP, tier, root, cov, ASSUMPTIONS, wall, len(reported))
    print('[C18] runs=%d distinct_nontrivial=%d faults=%d violations=%d known=%d wall=%.1fs -> exit %d' % (
        len(results), cov['distinct_nontrivial'], sum(agg['faults'].values()), len(reported), len(known_hits),
        wall, exit_code), flush=True)
    return exit_code


ASSUMPTIONS = [
    'SimFS models POSIX semantics of the calls the cache code uses (checked call-for-call against the real kernel by the conformance self-test on every run); completed calls persist, a killed process loses user-space buffers; power loss is not modelled',
    'shutil.move/copy2/copyfile/copystat and tempfile.mkstemp are re-implementations transcribed from CPython 3.12, one simulated system call per real one',
    'source GIR files are modified only while no scanner process runs, by ordinary writes at the current time (no back-dating); every timestamp is distinct (DESIGN.md §3.7)',
    'all processes of one epoch run the same scanner version; upgrades happen at quiescent points',
    'exploration samples schedules and fault sequences; a clean batch is evidence, not proof',
]


def aggregate(results):
    agg = {'faults': collections.Counter(), 'probes': collections.Counter(), 'families': collections.Counter(),
           'states': set(), 'steps': 0, 'events': 0, 'sim_ns': 0, 'ops_total': 0, 'ops_completed': 0,
           'isigs': set(), 'nontrivial_isigs': set(), 'midop': 0}
    for r in results:
        agg['faults'].update(r['faults'])
        agg['probes'].update(r['probes'])
        agg['families'][r['family']] += 1
        agg['states'].update(tuple(s) for s in r['states'])
        for k in ('steps', 'events', 'sim_ns', 'ops_total', 'ops_completed'):
            agg[k] += r[k]
        agg['isigs'].add(r['isig'])
        agg['midop'] += r['midop_switches']
        if r['midop_switches'] > 0 or sum(r['faults'].values()) > 0:
            agg['nontrivial_isigs'].add(r['isig'])
    return agg


def build_coverage(results, agg, sim_wall, det_info, conf, known_hits, fixed, reported, slice_info, jobs):
    from sim import cachesim
    samples = []
    for idx in (0, 4, 8):
        if idx < len(results):
            spec = cachesim.make_spec(core.verif_seed(), results[idx]['run_index'], False)
            samples.append({'run_index': spec['run_index'], 'seed': spec['seed'], 'config': spec['config'],
                            'workload': spec['workload'], 'steps': results[idx]['steps'],
                            'faults_fired': results[idx]['faults'], 'event_log_digest': results[idx]['digest']})
    n = len(results)
    return {
        'evaluations': n,
        'distinct_nontrivial': len(agg['nontrivial_isigs']),
        'rule': 'one evaluation = one simulated run (1-6 epochs of 1-3 concurrent scanner processes plus a closing '
                'fault-free probe process); distinct = distinct interleaving signature (hash of the sequence of '
                '(process slot, system call, path class) over the whole run); non-trivial = the run contained at least one '
                'context switch away from a process that was inside an operation, or at least one fired fault',
        'samples': samples,
        'distinct_interleavings_all': len(agg['isigs']),
        'runs_per_hour': int(n / sim_wall * 3600) if sim_wall > 0 else None,
        'seeds_per_hour': int(n / sim_wall * 3600) if sim_wall > 0 else None,
        'worker_processes': jobs,
        'simulated_time_ns': agg['sim_ns'],
        'simulated_system_calls': agg['steps'],
        'events_logged': agg['events'],
        'context_switches_inside_operations': agg['midop'],
        'operations': {'issued': agg['ops_total'], 'completed': agg['ops_completed'],
                       'completed_fraction': round(agg['ops_completed'] / max(1, agg['ops_total']), 3)},
        'families': dict(agg['families']),
        'faults_fired': dict(sorted(agg['faults'].items())),
        'environment_faults_fired': {k: v for k, v in sorted(agg['probes'].items())
                                     if k.startswith(('env_entry_damaged', 'enospc_hit', 'source_modified_while', 'scanner_upgraded_while'))},
        'probes': dict(sorted(agg['probes'].items())),
        'distinct_abstract_states': len(agg['states']),
        'abstract_state_rule': 'tuple of (entry state of each of 3 sources: absent/complete|broken x fresh|stale; '
                               'version stamp present; number of temp leftovers capped at 3), sampled after every operation',
        'real_components': ['giscanner/cachestore.py (all of it)', 'giscanner/utils.py:get_user_cache_dir/get_user_data_dir/get_system_data_dirs',
                            'giscanner/transformer.py:Transformer.__init__/_parse_include/_find_include',
                            'giscanner/girparser.py:GIRParser', 'giscanner/ast.py', 'giscanner/girwriter.py (oracle digest)',
                            'CPython pickle, hashlib, io.BufferedReader/BufferedWriter/TextIOWrapper, xml.etree (on bytes)'],
        'stub_components': ['kernel + file system (sim/simfs.py SimFS)', 'tempfile.mkstemp', 'shutil.move/copy2/copyfile/copystat',
                            'glob.glob', 'xml.etree.ElementTree.parse(path) -> simulated read then real parser',
                            'giscanner._giscanner C lexer (empty module; irrelevant to C18)', 'processes (parked threads, one runnable at a time)'],
        'determinism_selftest': det_info,
        'conformance_selftest': {k: v for k, v in conf.items() if k != 'problems'},
        'known_findings_matched': known_hits,
        'fixed_findings_in_force': fixed,
        'violations_reported': reported,
        'e2_cache_history_slice': slice_info,
    }


if __name__ == '__main__':
    try:
        code = main()
    except KeyboardInterrupt:
        code = core.EXIT_HARNESS
    except Exception:
        import traceback
        traceback.print_exc()
        print('HARNESS-FAILURE unexpected exception in the check driver')
        code = core.EXIT_HARNESS
    sys.stdout.flush()
    os._exit(code) if code else sys.exit(0)
