"""Fork server for engine E2: started once per PYTHONHASHSEED value (the hash secret is fixed per
interpreter), imports the scanner from /repo's working tree, then for every request line forks
a pristine child that runs the real giscanner.scannermain.scanner_main with the stub lexer.

Request (one JSON line on stdin):  {"job": <path to job.json>, "variant": {...}, "out": <path>}
Reply   (one JSON line on stdout): {"status": <exit status>, "signal": n|null}
"""
import json
import os
import sys

sys.path.insert(0, os.path.dirname(os.path.dirname(os.path.abspath(__file__))))
from sim import core          # noqa: E402


_REAL = {}
_LOW = [None]


def low_seam_available():
    """True when the C preprocessor can be run through the project's CCompiler (then only the C
    extension class is replaced); otherwise the whole of create_source_scanner is (as in the first
    version of this engine).  VERIF_E2_SEAM=high forces the latter."""
    if _LOW[0] is None:
        ok = False
        if os.environ.get('VERIF_E2_SEAM', 'low') != 'high':
            import shutil
            import tempfile
            d = tempfile.mkdtemp(prefix='verif-cpp-')
            cwd = os.getcwd()
            try:
                os.chdir(d)
                from giscanner.ccompiler import CCompiler
                with open('t.c', 'w') as f:
                    f.write('#include "%s/h.h"\n' % d)
                with open('h.h', 'w') as f:
                    f.write('/* x */\n')
                CCompiler().preprocess('t.c', 't.i', [])
                ok = ('"%s/h.h"' % d) in open('t.i').read()
            except BaseException:
                ok = False
            finally:
                os.chdir(cwd)
                shutil.rmtree(d, ignore_errors=True)
        _LOW[0] = ok
    return _LOW[0]


def run_scanner(job, variant, out_path, log_path, inproc=False):
    """Runs the real scanner_main once.  Fork mode: executed in a pristine forked child, never
    returns.  In-process mode: executed in the server itself (no fork, so no copy-on-write page
    faults, which do not scale in this VM); process-global scanner state is reset first, and the
    caller confirms any difference it sees in fork mode before believing it."""
    import builtins
    import gc
    if not inproc:
        gc.disable()
    from sim import cfront
    from giscanner import message
    message.MessageLogger._instance = None
    jobdir = job['dir']
    os.chdir(jobdir)
    logfd = os.open(log_path, os.O_WRONLY | os.O_CREAT | os.O_TRUNC, 0o644)
    os.dup2(logfd, 1)
    os.dup2(logfd, 2)
    sys.stdout = os.fdopen(1, 'w', closefd=False)
    sys.stderr = os.fdopen(2, 'w', closefd=False)
    env = os.environ
    for k in ('GI_SCANNER_DISABLE_CACHE', 'GI_GIR_PATH', 'GI_SCANNER_DEBUG', 'XDG_CACHE_HOME'):
        env.pop(k, None)
    env['HOME'] = os.path.join(jobdir, 'home')
    env['XDG_DATA_HOME'] = os.path.join(jobdir, 'xdgdata')
    env['XDG_DATA_DIRS'] = os.path.join(jobdir, 'share')
    env['PKG_CONFIG'] = '/bin/true'
    env['TMPDIR'] = os.path.join(jobdir, 'tmp')
    cache = variant.get('cache_dir')
    if cache:
        env['XDG_CACHE_HOME'] = cache
    else:
        env['GI_SCANNER_DISABLE_CACHE'] = '1'
    builtins.__dict__['DATADIR'] = os.path.join(jobdir, 'share')
    builtins.__dict__['GIR_DIR'] = os.path.join(jobdir, 'share', 'gir-1.0')
    import tempfile
    tempfile.tempdir = None
    from giscanner import scannermain
    _REAL.setdefault('create_source_scanner', scannermain.create_source_scanner)
    sys.argv = [variant.get('argv0') or os.path.join(jobdir, 'bin', 'g-ir-scanner')]

    files = variant.get('file_order') or job['file_order']
    abs_files = [os.path.realpath(os.path.join(jobdir, f)) for f in files]
    by_file = {}
    for d in job['decls']:
        by_file.setdefault(d['file'], []).append(d)
    # symbols arrive in the order the headers are named on the command line
    decls = []
    for f in files:
        for d in by_file.get(f, []):
            dd = dict(d)
            dd['file'] = os.path.realpath(os.path.join(jobdir, f))
            decls.append(dd)
    comments = variant.get('comments')
    explicit = comments is not None
    if comments is None:
        # lexing order: .c files first (command-line order), then the headers
        cfiles = [f for f in files if f.endswith('.c')]
        hfiles = [f for f in files if not f.endswith('.c')]
        comments = [c for f in cfiles + hfiles for c in job['comments'] if c[1] == f]
    comments = [[c[0], os.path.realpath(os.path.join(jobdir, c[1])), c[2]] for c in comments]

    if low_seam_available():
        # the seam is the C extension class: scannermain.create_source_scanner and the Python
        # SourceScanner (with its preprocessor run) are the project's own code
        from giscanner import sourcescanner
        fake = type('FakeCSourceScanner', (cfront.FakeCSourceScanner,), {
            'decls': decls, 'comments': [c for c in comments],
            'comments_override': comments if explicit else None})
        sourcescanner.CSourceScanner = fake
        scannermain.create_source_scanner = _REAL['create_source_scanner']
    else:
        def stub_create_source_scanner(options, args):
            # keep the real function's argument handling (file existence checks, realpath)
            if hasattr(options, 'filelist') and options.filelist:
                filenames = scannermain.extract_filelist(options)
            else:
                filenames = scannermain.extract_filenames(args)
            filenames = [os.path.realpath(f) for f in filenames]
            return cfront.StubSourceScanner(decls, comments, filenames), filenames
        scannermain.create_source_scanner = stub_create_source_scanner

    args = ['g-ir-scanner', '--output=' + out_path, '--namespace=' + job['ns'], '--nsversion=' + job['version']]
    for p in job.get('id_prefixes', []):
        args.append('--identifier-prefix=' + p)
    for p in job.get('sym_prefixes', []):
        args.append('--symbol-prefix=' + p)
    for inc in job.get('includes', []):
        args.append('--include=' + inc)
    args.append('--add-include-path=' + os.path.join(jobdir, 'deps'))
    if job.get('program'):
        args.append('--program=' + os.path.join(jobdir, job['program']))
    else:
        args.append('--header-only')
    args.extend(job.get('options', []))
    args.extend(variant.get('extra_options', []))
    args.extend(files)
    code = 70
    try:
        code = scannermain.scanner_main(args)
        code = 0 if code is None else int(code)
    except SystemExit as e:
        code = e.code if isinstance(e.code, int) else (0 if e.code is None else 1)
    except BaseException:
        import traceback
        traceback.print_exc()
        code = 70
    finally:
        try:
            sys.stdout.flush()
            sys.stderr.flush()
        except Exception:
            pass
        if not inproc:
            os._exit(code & 0xff)
    os.close(logfd)
    return code & 0xff


def serve():
    core.repo_import_path()
    # import everything the scanner needs once, so children start warm
    from giscanner import scannermain  # noqa: F401
    from sim import cfront  # noqa: F401
    _REAL.setdefault('create_source_scanner', scannermain.create_source_scanner)
    low = low_seam_available()       # decided once per server; forked children inherit it
    sys.stdout.write(json.dumps({'ready': True, 'low_seam': low, 'hashseed': os.environ.get('PYTHONHASHSEED'),
                                 'pid': os.getpid()}) + '\n')
    sys.stdout.flush()
    real_stdout = os.dup(1)
    jobs = {}
    import gc
    gc.collect()
    gc.freeze()        # keep the collector from dirtying (and the kernel from copying) shared pages in children
    for line in sys.stdin:
        line = line.strip()
        if not line:
            continue
        req = json.loads(line)
        if req.get('quit'):
            break
        jp = req['job']
        if jp not in jobs:
            jobs.clear()
            with open(jp) as f:
                jobs[jp] = json.load(f)
        job = jobs[jp]
        if req.get('mode') == 'inproc':
            try:
                code = run_scanner(job, req['variant'], req['out'], req['log'], inproc=True)
                rep = {'status': code, 'signal': None}
            except BaseException as e:        # noqa
                rep = {'status': 71, 'signal': None, 'error': repr(e)}
            os.write(real_stdout, (json.dumps(rep) + '\n').encode())
            continue
        pid = os.fork()
        if pid == 0:
            try:
                run_scanner(job, req['variant'], req['out'], req['log'])
            finally:
                os._exit(71)
        _, status = os.waitpid(pid, 0)
        rep = {'status': os.WEXITSTATUS(status) if os.WIFEXITED(status) else None,
               'signal': os.WTERMSIG(status) if os.WIFSIGNALED(status) else None}
        os.write(real_stdout, (json.dumps(rep) + '\n').encode())


if __name__ == '__main__':
    serve()
