"""Engine E3 `xmlsim` (property C20): seeded operation-and-exception histories against the real
giscanner.xmlwriter.XMLWriter, a tree model, and an independent parser (raw pyexpat)
(DESIGN.md §5).  No scheduler vocabulary here: the only 'fault' is the writing code raising
inside open tagcontext bodies."""
import hashlib
import json
import os
import sys
import time
import traceback
import xml.parsers.expat as expat

from . import core


class Boom(Exception):
    """The exception the simulated 'writing code' raises."""


class BoomBase(BaseException):
    """Same, but not derived from Exception (like KeyboardInterrupt or GeneratorExit): try/finally
    closes the element for these too."""


class Mismatch(AssertionError):
    pass


# ---------------------------------------------------------------------------------------
# Driver: executes an operation tree against the real writer
# ---------------------------------------------------------------------------------------

def attrs_of(op):
    return [(a, v) for a, v in op.get('attrs', [])]


def drive(writer, ops):
    for op in ops:
        k = op['op']
        if k == 'ctx':
            with writer.tagcontext(op['name'], attrs_of(op)):
                drive(writer, op['children'])
        elif k == 'pushpop':
            writer.push_tag(op['name'], attrs_of(op))
            drive(writer, op['children'])
            writer.pop_tag()
        elif k == 'leaf':
            data = op.get('data')
            if op.get('bytes') and data is not None:
                try:
                    writer.write_tag(op['name'], attrs_of(op), data.encode('utf-8'))
                except (TypeError, AssertionError, AttributeError):
                    op['_rejected'] = True       # a writer may refuse bytes; it may not mangle them
            else:
                writer.write_tag(op['name'], attrs_of(op), data)
        elif k == 'comment':
            writer.write_comment(op['text'])
        elif k == 'text':
            if op.get('bytes'):
                try:
                    writer.write_line(op['text'].encode('utf-8'), do_escape=True)
                except (TypeError, AssertionError, AttributeError):
                    op['_rejected'] = True
            else:
                writer.write_line(op['text'], do_escape=True)
        elif k == 'catch':
            try:
                drive(writer, op['children'])
            except (Boom, BoomBase):
                pass
        elif k == 'raise':
            if op.get('base'):
                raise BoomBase()
            raise Boom()
        elif k == 'ws':
            if op['on']:
                writer.enable_whitespace()
            else:
                writer.disable_whitespace()
        else:
            raise ValueError('unknown op %r' % (k,))


# ---------------------------------------------------------------------------------------
# Model: the tree the document must parse back to.  The writer's own formatting (indentation,
# newlines) is not part of what was handed to it, so the model records only the caller's
# elements, attributes, comments and text; compare() allows formatting white space around
# the text lines and nowhere else.
# ---------------------------------------------------------------------------------------

def model(ops, ws0=True):
    """The tree the document must parse back to.  Items are dicts:
    {'t': 'elem', name, attrs, children, leaf, wo, wc} | {'t': 'comment', s, w} | {'t': 'text', s, w}
    where w / wo / wc is the white-space mode in force when the item (or the element's open / close
    tag) was written: formatting white space may only appear next to something written while
    white space was enabled."""
    top = []
    mode = [ws0]

    def run(ops, items):
        for op in ops:
            k = op['op']
            if k in ('ctx', 'pushpop'):
                el = {'t': 'elem', 'name': op['name'], 'attrs': {a: v for a, v in attrs_of(op) if v is not None},
                      'children': [], 'leaf': False, 'wo': mode[0], 'wc': mode[0]}
                items.append(el)
                try:
                    run(op['children'], el['children'])
                finally:
                    # the close tag is written on unwinding too (tagcontext's finally), in the mode
                    # in force at that moment
                    el['wc'] = mode[0]
            elif k == 'leaf':
                if op.get('_rejected'):
                    continue
                data = op.get('data')
                items.append({'t': 'elem', 'name': op['name'], 'attrs': {a: v for a, v in attrs_of(op) if v is not None},
                              'children': [{'t': 'text', 's': data, 'w': False}] if data else [], 'leaf': True,
                              'wo': mode[0], 'wc': mode[0]})
            elif k == 'comment':
                items.append({'t': 'comment', 's': ' %s ' % op['text'], 'w': mode[0]})
            elif k == 'text':
                if not op.get('_rejected'):
                    items.append({'t': 'text', 's': op['text'], 'w': mode[0]})
            elif k == 'ws':
                mode[0] = bool(op['on'])
            elif k == 'catch':
                try:
                    run(op['children'], items)
                except (Boom, BoomBase):
                    pass
            elif k == 'raise':
                if op.get('base'):
                    raise BoomBase()
                raise Boom()
    run(ops, top)
    return top


FMT = r'[ \t\n]*'


def compare(got, want, parent, path):
    """got: parsed items (adjacent text merged); want: model items; parent: the model element
    they belong to (None at top level).  Raises Mismatch."""
    import re
    gi = 0
    pending = []          # text items since the last non-text item

    def start_mode(item):
        return item['wo'] if item['t'] == 'elem' else item['w']

    def end_mode(item):
        return item['wc'] if item['t'] == 'elem' else item['w']

    def flush(prev, nxt):
        nonlocal gi
        chunk = ''
        if gi < len(got) and got[gi][0] == 'text':
            chunk = got[gi][1]
            gi += 1
        texts = [t['s'] for t in pending]
        leaf = parent is not None and parent['leaf']
        # white space written by the writer itself can only sit next to something that was
        # written while white space was enabled
        before = (end_mode(prev) if prev is not None else (parent['wo'] if parent is not None else True))
        after = (start_mode(nxt) if nxt is not None else (parent['wc'] if parent is not None else True))
        fmt_possible = (not leaf) and (before or after or any(t['w'] for t in pending))
        if not fmt_possible:
            if chunk != ''.join(texts):
                raise Mismatch('X2 element text differs in <%s>: got %r want %r' % (path, chunk, ''.join(texts)))
        else:
            pat = r'\A' + FMT + FMT.join(re.escape(t) for t in texts) + FMT + r'\Z'
            if re.match(pat, chunk) is None:
                raise Mismatch('X2 text lines differ in <%s>: got %r want lines %r' % (path, chunk, texts))
        del pending[:]

    prev = None
    for w in want:
        if w['t'] == 'text':
            pending.append(w)
            continue
        flush(prev, w)
        if gi >= len(got):
            raise Mismatch('X2 item missing from the parsed document in <%s>: %s %r' % (path, w['t'], w.get('name', w.get('s'))))
        g = got[gi]
        gi += 1
        if g[0] != w['t']:
            raise Mismatch('X2 item kind differs in <%s>: expected %s %r, parsed %s %r' % (
                path, w['t'], w.get('name', w.get('s')), g[0], g[1]))
        if w['t'] == 'comment':
            # the blanks the writer puts around a comment's text are formatting, not content
            if g[1].strip(' ') != w['s'].strip(' '):
                raise Mismatch('X2 comment differs in <%s>: got %r want %r' % (path, g[1], w['s']))
        else:
            if g[1] != w['name']:
                raise Mismatch('X2 element name differs in <%s>: got %r want %r' % (path, g[1], w['name']))
            gattrs = dict(g[2])
            if len(gattrs) != len(g[2]) or gattrs != w['attrs']:
                raise Mismatch('X2 attributes differ in <%s/%s>: got %r want %r' % (path, w['name'], g[2], w['attrs']))
            compare(g[3], w['children'], w, path + '/' + w['name'])
        prev = w
    flush(prev, None)
    if gi != len(got):
        raise Mismatch('X2 unexpected extra content in <%s>: %r' % (path, got[gi:][:2]))


# ---------------------------------------------------------------------------------------
# Independent parse-back with raw pyexpat (no namespace processing)
# ---------------------------------------------------------------------------------------

def parse_back(data):
    p = expat.ParserCreate()
    p.ordered_attributes = True
    p.buffer_text = False
    top = []
    stack = [top]

    def start(name, attrs):
        el = ('elem', name, [(attrs[i], attrs[i + 1]) for i in range(0, len(attrs), 2)], [])
        stack[-1].append(el)
        stack.append(el[3])

    def end(name):
        stack.pop()

    def chars(s):
        cur = stack[-1]
        if cur and cur[-1][0] == 'text':
            cur[-1] = ('text', cur[-1][1] + s)
        else:
            cur.append(('text', s))

    def comment(s):
        stack[-1].append(('comment', s))
    p.StartElementHandler = start
    p.EndElementHandler = end
    p.CharacterDataHandler = chars
    p.CommentHandler = comment
    p.Parse(data, True)
    return top


def check_document(doc):
    """Run one document (operation tree) against the real writer and the model.  Raises
    Mismatch with a clause name on any disagreement."""
    from giscanner.xmlwriter import XMLWriter

    def clear(ops):
        for op in ops:
            op.pop('_rejected', None)
            clear(op.get('children', []))
    clear(doc['ops'])
    w = XMLWriter()
    if not doc['whitespace']:
        w.disable_whitespace()
    boom_escaped = False
    try:
        drive(w, doc['ops'])
    except (Boom, BoomBase):
        boom_escaped = True
    xml = w.get_xml()
    enc = w.get_encoded_xml()
    try:
        if enc.decode('utf-8') != xml:
            raise Mismatch('X1 get_encoded_xml() is not the UTF-8 encoding of get_xml()')
    except UnicodeDecodeError as e:
        raise Mismatch('X1 encoded document is not valid UTF-8: %s' % e)
    try:
        got = parse_back(enc)
    except expat.ExpatError as e:
        raise Mismatch('X1 document is not well-formed: %s\n%s' % (e, xml[:600]))
    try:
        want = model(doc['ops'], doc['whitespace'])
    except (Boom, BoomBase):
        raise Mismatch('harness: model let Boom escape')
    # outside the root element expat reports no character data
    compare(got, [it for it in want if it['t'] != 'text'], None, '')
    return {'boom_escaped': boom_escaped, 'xml_len': len(xml), 'wrapped': any_wrapped(xml)}


def any_wrapped(xml):
    # a tag whose attribute list was broken over several lines
    import re
    return re.search(r'<[^<>!?][^<>]*\n[^<>]*>', xml) is not None


def skeleton(ops):
    out = []
    for op in ops:
        k = op['op']
        if k in ('ctx', 'pushpop', 'catch'):
            out.append((k[0] if k != 'catch' else 'K', len(op.get('attrs', [])), skeleton(op['children'])))
        elif k == 'leaf':
            out.append(('l', len(op.get('attrs', [])), op.get('data') is not None))
        elif k == 'ws':
            out.append(('w', op['on']))
        else:
            out.append((k[0],))
    return tuple(out)


def has_raise(ops):
    return any(op['op'] == 'raise' or has_raise(op.get('children', [])) for op in ops)


# ---------------------------------------------------------------------------------------
# Documents are decoded from a byte string (the "genome").  Hypothesis supplies and shrinks the
# bytes (one flat draw per example: deep recursive strategies were 30x slower and thrashed the
# interpreter's frame-stack allocator); byte value 0 always decodes to the simplest choice, so
# shrinking the bytes shrinks the document.
# ---------------------------------------------------------------------------------------

SPECIALS = ['<', '>', '&', '"', "'", '\n', '\t', ' ', ';', '#', ']', '=', '-', '/', '!', '?',
            '&amp;', ']]>', '&#10;', '<!--', '-->', '<![CDATA[', '\x85', '\xa0', '\ufffd', '\u2028',
            '\U0001f600', '\ud7ff', '\ue000', '\x7f', '\U0010ffff', '\ufffd', '%s', '%(a)s', '{}', '\\',
            'e\u0301', '\u212b', '\u0958', 'A\u030a', '\u1100\u1161', '\u2126', '\u2029', '\u0344']
NAME_START = list('abcxyzABCZ_') + ['\xe9', '\u03bb', '\u4e2d', '\u212b']
NAME_REST = list('abcxyz09-._') + ['\xe9', '\u4e2d', '\u0301']


class Genome(object):
    def __init__(self, data):
        self.data = data
        self.i = 0

    def byte(self):
        if self.i < len(self.data):
            b = self.data[self.i]
            self.i += 1
            return b
        return 0

    def below(self, n):
        return self.byte() % n if n > 1 else 0

    def char(self, allow_cr):
        b = self.byte()
        if b < 96:
            return chr(0x61 + b % 26) if b < 64 else chr(0x30 + b % 10)
        if b < 200:
            return SPECIALS[b % len(SPECIALS)]
        if b < 208 and allow_cr:
            return '\r'
        # an arbitrary XML 1.0 Char from two more bytes
        cp = (self.byte() << 8 | self.byte()) * (17 if b & 1 else 1) + 0x20
        if 0xd800 <= cp <= 0xdfff or cp in (0xfffe, 0xffff) or cp > 0x10ffff:
            cp = 0x4e2d
        return chr(cp)

    def text(self, maxlen, allow_cr=False):
        n = self.below(maxlen + 1)
        return ''.join(self.char(allow_cr) for _ in range(n))

    def name(self):
        def nc():
            s = NAME_START[self.below(len(NAME_START))]
            for _ in range(self.below(10)):
                s += NAME_REST[self.below(len(NAME_REST))]
            if s.lower().startswith('xml'):
                s = 'n' + s
            return s
        n = nc()
        if self.below(4) == 3:
            n += ':' + nc()
        return n

    def attrs(self):
        k = self.below(10)
        out, seen = [], set()
        for _ in range(k):
            n = self.name()
            if n in seen:
                continue
            seen.add(n)
            sel = self.below(8)
            if sel == 1:
                v = None
            elif sel == 2:
                v = self.text(90, True)
            else:
                v = self.text(24, True)
            out.append([n, v])
        return out

    def comment_text(self):
        t = self.text(24)
        while '--' in t:
            t = t.replace('--', '- -')
        return t

    def ops(self, raise_ok, depth, maxn=5):
        out = []
        for _ in range(self.below(maxn + 1)):
            if self.below(16) == 15:
                out.append({'op': 'ws', 'on': self.below(2) == 1})      # white-space mode switched mid-document
            sel = self.below(10 if depth > 0 else 6)
            if sel in (0, 5):
                d = self.below(4)
                data = None if d == 0 else ('' if d == 1 else self.text(30))
                out.append({'op': 'leaf', 'name': self.name(), 'attrs': self.attrs(), 'data': data})
                if data and self.below(5) == 4:
                    out[-1]['bytes'] = True        # the API also takes UTF-8 bytes for data and lines
            elif sel == 1:
                out.append({'op': 'text', 'text': self.text(30)})
                if self.below(5) == 4:
                    out[-1]['bytes'] = True
            elif sel == 2:
                out.append({'op': 'comment', 'text': self.comment_text()})
            elif sel in (3, 4):
                if raise_ok:
                    out.append({'op': 'raise'})
                    if self.below(4) == 3:
                        out[-1]['base'] = True
                else:
                    out.append({'op': 'text', 'text': self.text(8)})
            elif sel in (6, 7):
                out.append({'op': 'ctx', 'name': self.name(), 'attrs': self.attrs(),
                            'children': self.ops(raise_ok, depth - 1)})
            elif sel == 8:
                out.append({'op': 'pushpop', 'name': self.name(), 'attrs': self.attrs(),
                            'children': self.ops(False, depth - 1)})
            else:
                out.append({'op': 'catch', 'children': self.ops(True, depth - 1)})
        return out


def decode_document(data, max_depth):
    g = Genome(data)
    ws = g.below(2) == 0
    pre = [{'op': 'comment', 'text': g.comment_text()} for _ in range(g.below(3))]
    sel = g.below(6)
    if sel == 5:
        d = g.below(3)
        root = {'op': 'leaf', 'name': g.name(), 'attrs': g.attrs(), 'data': None if d == 0 else g.text(30)}
    elif sel == 4:
        root = {'op': 'pushpop', 'name': g.name(), 'attrs': g.attrs(), 'children': g.ops(False, max_depth, 6)}
    else:
        root = {'op': 'ctx', 'name': g.name(), 'attrs': g.attrs(), 'children': g.ops(True, max_depth, 6)}
    post = [{'op': 'comment', 'text': g.comment_text()} for _ in range(g.below(2))]
    return {'whitespace': ws, 'ops': [{'op': 'catch', 'children': pre + [root] + post}]}


# ---------------------------------------------------------------------------------------
# One worker = one Hypothesis run with its own derived seed
# ---------------------------------------------------------------------------------------

def worker(args):
    root, index, max_examples, max_depth = args
    core.repo_import_path()
    from hypothesis import given, settings, seed, HealthCheck, Phase, strategies as st
    genome = st.integers(0, 1200).flatmap(lambda n: st.binary(min_size=n, max_size=n))
    stats = {'examples': 0, 'raises': 0, 'boom_escaped_root': 0, 'wrapped': 0, 'skeletons': set(),
             'nontrivial_skeletons': set(), 'sample': None, 'maxlen': 0}
    last = {}

    def test(data):
        doc = decode_document(data, max_depth)
        last['doc'] = doc
        stats['examples'] += 1
        info = check_document(doc)
        sk = hashlib.sha1(repr((doc['whitespace'], skeleton(doc['ops']))).encode()).hexdigest()[:16]
        stats['skeletons'].add(sk)
        r = has_raise(doc['ops'])
        if r:
            stats['raises'] += 1
        if info['boom_escaped']:
            stats['boom_escaped_root'] += 1
        if info['wrapped']:
            stats['wrapped'] += 1
        if r or info['wrapped']:
            stats['nontrivial_skeletons'].add(sk)
            if stats['sample'] is None and info['xml_len'] < 700 and r and info['wrapped']:
                stats['sample'] = doc
        stats['maxlen'] = max(stats['maxlen'], info['xml_len'])

    s = core.derive_seed('xmlsim', 'C20', root, index)
    t = settings(max_examples=max_examples, database=None, deadline=None, report_multiple_bugs=False,
                 suppress_health_check=list(HealthCheck), phases=[Phase.generate, Phase.shrink],
                 derandomize=False)(seed(s)(given(genome)(test)))
    res = {'index': index, 'seed': s, 'violation': None, 'harness_error': None}
    try:
        t()
    except Mismatch as e:
        msg = str(e)
        if msg.startswith('harness'):
            res['harness_error'] = msg
        else:
            res['violation'] = {'clause': msg[:2], 'message': msg[:3000], 'doc': last.get('doc')}
    except Exception as e:       # the writer itself raising on XML-representable input is a violation
        tb = traceback.extract_tb(e.__traceback__)
        in_writer = any('/giscanner/' in f.filename for f in tb)
        if in_writer:
            res['violation'] = {'clause': 'X0', 'message': 'X0 writer raised %r' % (e,), 'doc': last.get('doc')}
        else:
            res['harness_error'] = 'harness: %r\n%s' % (e, traceback.format_exc())
    for k in ('examples', 'raises', 'boom_escaped_root', 'wrapped', 'maxlen', 'sample'):
        res[k] = stats[k]
    res['skeletons'] = sorted(stats['skeletons'])
    res['nontrivial_skeletons'] = sorted(stats['nontrivial_skeletons'])
    return res


def signature_of(v):
    import re
    first = v['message'].split('\n')[0]
    first = re.sub(r'[:(].*$', '', first)
    first = re.sub(r' in <.*$', '', first).strip()   # element paths vary from run to run
    return re.sub(r'\s+', '-', first)[:80]
