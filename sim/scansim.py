"""Engine E2 `scansim` (property C16, and the last clause of C18): the real scanner_main run under
every controlled source of nondeterminism -- interpreter hash seed, arrival order of source files
and comment blocks, typedef/struct arrival order, dependency-cache history -- with a
byte-equality oracle against a baseline run (DESIGN.md §4)."""
import hashlib
import json
import os
import random
import shutil
import subprocess
import sys
import tempfile
import time

from . import core
from . import scanjobs

ENGINE = 'scansim'
HERE = os.path.dirname(os.path.abspath(__file__))
FAR_PAST = 1_000_000_000          # 2001
FAR_FUTURE = 4_000_000_000        # 2096


# Stand-in for the compiled introspection binary: run through the real --program ->
# GDumpParser._execute_binary_get_tree subprocess path; answers the get-type / error-quark
# requests of functions.txt, in the order they were asked, from a table written with the job.
DUMPER = '''#!%s
import json, os, sys
arg = [a for a in sys.argv[1:] if a.startswith('--introspect-dump=')][0]
in_path, out_path = arg.split('=', 1)[1].split(',')
table = json.load(open(os.path.join(os.path.dirname(os.path.abspath(__file__)), 'dump-table.json')))
out = ['<?xml version="1.0"?>', '<dump>']
for line in open(in_path):
    kind, _, fn = line.strip().partition(':')
    if fn in table:
        out.append(table[fn])
    else:
        sys.stderr.write('dumper stub: no entry for %%s\\n' %% fn)
        sys.exit(3)
out.append('</dump>')
open(out_path, 'w').write('\\n'.join(out) + '\\n')
'''


class ServerError(Exception):
    pass


class Servers(object):
    """One long-lived fork server per PYTHONHASHSEED value, per worker process."""

    def __init__(self, max_servers=24):
        self.procs = {}
        self.max = max_servers
        self.started = 0

    def get(self, hashseed):
        p = self.procs.get(hashseed)
        if p is not None and p.poll() is None:
            return p
        if len(self.procs) >= self.max:
            # retire the most recently added non-pool server
            k = list(self.procs)[-1]
            self.stop(k)
        env = dict(os.environ)
        env['PYTHONHASHSEED'] = str(hashseed)
        env['VERIF_REPO'] = core.REPO
        p = subprocess.Popen([sys.executable, os.path.join(HERE, 'scanchild.py')], stdin=subprocess.PIPE,
                             stdout=subprocess.PIPE, stderr=subprocess.PIPE, env=env, text=True, bufsize=1)
        line = p.stdout.readline()
        if not line:
            err = p.stderr.read()
            raise ServerError('scanner fork-server (PYTHONHASHSEED=%s) failed to start:\n%s' % (hashseed, err[-3000:]))
        self.procs[hashseed] = p
        self.started += 1
        return p

    def request(self, hashseed, job_path, variant, out, log, mode='fork'):
        p = self.get(hashseed)
        p.stdin.write(json.dumps({'job': job_path, 'variant': variant, 'out': out, 'log': log, 'mode': mode}) + '\n')
        p.stdin.flush()
        line = p.stdout.readline()
        if not line:
            raise ServerError('scanner fork-server (PYTHONHASHSEED=%s) died: %s' % (hashseed, p.stderr.read()[-2000:]))
        return json.loads(line)

    def stop(self, k):
        p = self.procs.pop(k, None)
        if p is not None:
            try:
                p.stdin.close()
                p.wait(timeout=5)
            except Exception:
                p.kill()

    def stop_all(self):
        for k in list(self.procs):
            self.stop(k)


_servers = None
_servers_pid = None


def servers():
    """The fork-server pool of *this* process (a forked worker must not talk over pipes it
    inherited from its parent)."""
    global _servers, _servers_pid
    if _servers is None or _servers_pid != os.getpid():
        _servers = Servers()
        _servers_pid = os.getpid()
    return _servers


# ---------------------------------------------------------------------------------------
# Materialising a job on the real file system
# ---------------------------------------------------------------------------------------

def write_job_dir(job, jobdir):
    os.makedirs(jobdir, exist_ok=True)
    for d in ('deps', 'home', 'xdgdata', 'share/gir-1.0', 'tmp', 'bin', 'out'):
        os.makedirs(os.path.join(jobdir, d), exist_ok=True)
    for f in job['file_order']:
        with open(os.path.join(jobdir, f), 'w') as fh:
            fh.write('/* stub: the C lexer is replaced by sim/cfront.py */\n')
    for i, name in enumerate(('g-ir-scanner', 'g-ir-scanner-upgraded')):
        path = os.path.join(jobdir, 'bin', name)
        with open(path, 'w') as fh:
            fh.write('#!python\n')
        os.utime(path, (FAR_PAST + i * 1000, FAR_PAST + i * 1000))
    if job.get('program'):
        table = dict(job.get('dump', {}))
        table.update(job.get('error_quarks', {}))
        with open(os.path.join(jobdir, 'bin', 'dump-table.json'), 'w') as fh:
            json.dump(table, fh)
        dumper = os.path.join(jobdir, 'bin', 'dumper')
        with open(dumper, 'w') as fh:
            fh.write(DUMPER % sys.executable)
        os.chmod(dumper, 0o755)
    for n in ('GLib-2.0.gir', 'GObject-2.0.gir', 'Gio-2.0.gir', 'Crayon-1.0.gir'):
        dst = os.path.join(jobdir, 'deps', n)
        shutil.copyfile(os.path.join(HERE, 'fixtures', n), dst)
        os.utime(dst, (FAR_PAST, FAR_PAST))
    j = dict(job)
    j['dir'] = jobdir
    j['deps'] = []          # children only need the main namespace; dependency GIRs are files
    path = os.path.join(jobdir, 'job.json')
    with open(path, 'w') as fh:
        json.dump(j, fh)
    return path


def run_variant(jobdir, job_path, hashseed, variant, tag, mode='fork'):
    out = os.path.join(jobdir, 'out', tag + '.gir')
    log = os.path.join(jobdir, 'out', tag + '.log')
    if os.path.exists(out):
        os.unlink(out)
    rep = servers().request(hashseed, job_path, variant, out, log, mode)
    data = None
    if os.path.exists(out):
        with open(out, 'rb') as f:
            data = f.read()
    return {'status': rep['status'], 'signal': rep['signal'], 'data': data, 'log': log}


def build_dependencies(job, jobdir):
    """Each dependency namespace is scanned by the scanner itself (hash seed 0, canonical order,
    cache disabled) into <jobdir>/deps, dependencies first."""
    for dep in scanjobs.all_namespaces(job)[:-1]:
        ddir = os.path.join(jobdir, 'dep-' + dep['ns'])
        jp = write_job_dir(dep, ddir)
        shutil.rmtree(os.path.join(ddir, 'deps'))
        os.symlink(os.path.join(jobdir, 'deps'), os.path.join(ddir, 'deps'))
        r = run_variant(ddir, jp, 0, {}, 'dep')
        if r['status'] != 0 or r['data'] is None:
            raise ServerError('scanning dependency %s failed (status %r):\n%s' % (
                dep['ns'], r['status'], open(r['log']).read()[-3000:]))
        target = os.path.join(jobdir, 'deps', '%s-%s.gir' % (dep['ns'], dep['version']))
        with open(target, 'wb') as f:
            f.write(r['data'])
        os.utime(target, (FAR_PAST, FAR_PAST))


def cache_snapshot(cachedir):
    d = os.path.join(cachedir, 'g-ir-scanner')
    out = {}
    try:
        for n in os.listdir(d):
            st = os.stat(os.path.join(d, n))
            out[n] = (st.st_ino, st.st_size, st.st_mtime_ns)
    except OSError:
        pass
    return out


def classify_cache_effect(before, after):
    b = {k: v for k, v in before.items() if k != '.cache-version'}
    a = {k: v for k, v in after.items() if k != '.cache-version'}
    if not b and not a:
        return 'no-entries'
    if b == a:
        return 'hit'                      # entries untouched: everything was served from the cache
    kept = [k for k in b if a.get(k) == b[k]]
    if b and not kept:
        return 'all-replaced' if a else 'all-removed'
    if not b:
        return 'filled'
    return 'partly-replaced'


# ---------------------------------------------------------------------------------------
# Variants: the controlled nondeterminism
# ---------------------------------------------------------------------------------------

HASH_POOL_QUICK = [0, 1, 2, 3, 1234567, 4294967295]
HASH_POOL_THOROUGH = HASH_POOL_QUICK + [5, 7, 11, 77, 101, 999, 31337, 65536, 2147483647, 3000000000]


def gen_variants(rng, job, thorough, cache_only=False):
    pool = HASH_POOL_THOROUGH if thorough else HASH_POOL_QUICK
    variants = []
    orders = scanjobs.valid_file_orders(job, rng, 6 if thorough else 4)
    ncomments = len(job['comments'])
    fixed = bool(job.get('fixed_order'))
    if fixed:
        # an identifier documented twice: the arrival order of blocks is part of the input
        orders, ncomments = [], 0
    # 1. hash seeds x file orders x raw comment permutations, cache disabled
    for i in range(0 if cache_only else (10 if thorough else 6)):
        v = {'kind': 'order', 'hashseed': rng.choice(pool)}
        if i == 0:
            v['hashseed'] = pool[1]
        if orders and rng.random() < 0.8:
            v['file_order'] = rng.choice(orders)
        if ncomments > 1 and rng.random() < 0.5:
            perm = list(range(ncomments))
            rng.shuffle(perm)
            v['comment_perm'] = perm
        variants.append(v)
    if not cache_only:
        # source files in ANY order, including orders in which a header that uses a type is named
        # before the header that declares it.  C16 says "in whatever order ... the source files
        # containing them were supplied"; the Python pipeline accepts any arrival order of symbols
        # (the unchanged tree is byte-stable under these too), even though a real C compiler
        # front end would only see such an order if every header forward-declared what it uses.
        for _ in range(0 if fixed else (3 if thorough else 2)):
            fo = job['file_order'][:]
            rng.shuffle(fo)
            variants.append({'kind': 'order', 'hashseed': rng.choice(pool), 'file_order': fo, 'free_order': True})
    if thorough and not cache_only:
        variants.append({'kind': 'order', 'hashseed': rng.randrange(1, 2**32 - 1), 'one_shot': True})
    # 2. a cache history, executed in order on one cache directory
    steps = ['cold', 'warm', 'warm_other_seed']
    extra = ['truncate', 'garbage', 'stale', 'del_stamp', 'upgrade', 'warm', 'empty_entry']
    rng.shuffle(extra)
    steps += extra[:5 if thorough else 3] if not cache_only else extra
    steps.append('warm')
    last_seed = None
    for s in steps:
        hs = rng.choice(pool)
        if s == 'warm_other_seed' and last_seed is not None:
            hs = rng.choice([x for x in pool if x != last_seed])
        v = {'kind': 'cache', 'step': s, 'hashseed': hs}
        if orders and rng.random() < 0.3:
            v['file_order'] = rng.choice(orders)
        variants.append(v)
        last_seed = hs
    return variants


def apply_cache_step(step, jobdir, cachedir, state):
    d = os.path.join(cachedir, 'g-ir-scanner')
    entries = []
    if os.path.isdir(d):
        entries = [os.path.join(d, n) for n in sorted(os.listdir(d)) if n != '.cache-version']
    deps = [os.path.join(jobdir, 'deps', n) for n in sorted(os.listdir(os.path.join(jobdir, 'deps')))]
    for p in deps:
        os.utime(p, (FAR_PAST, FAR_PAST))
    state['argv0'] = state.get('argv0', 'g-ir-scanner')
    if step == 'cold':
        shutil.rmtree(cachedir, ignore_errors=True)
    elif step == 'truncate':
        for e in entries:
            sz = os.path.getsize(e)
            with open(e, 'r+b') as f:
                f.truncate(sz // 2)
    elif step == 'empty_entry':
        for e in entries[:1]:
            open(e, 'wb').close()
    elif step == 'garbage':
        for e in entries:
            with open(e, 'wb') as f:
                f.write(b'\x00\xffnot a pickle' * 20)
    elif step == 'stale':
        for p in deps:
            os.utime(p, (FAR_FUTURE, FAR_FUTURE))
    elif step == 'del_stamp':
        try:
            os.unlink(os.path.join(d, '.cache-version'))
        except OSError:
            pass
    elif step == 'upgrade':
        state['argv0'] = 'g-ir-scanner-upgraded' if state['argv0'] == 'g-ir-scanner' else 'g-ir-scanner'


# ---------------------------------------------------------------------------------------
# One job = baseline + variants
# ---------------------------------------------------------------------------------------

def variant_to_request(job, v, jobdir, cachedir, state):
    req = {}
    if v.get('file_order'):
        req['file_order'] = v['file_order']
    if v.get('comment_perm'):
        req['comments'] = [job['comments'][i] for i in v['comment_perm']]
    if v['kind'] == 'cache':
        req['cache_dir'] = cachedir
        req['argv0'] = os.path.join(jobdir, 'bin', state.get('argv0', 'g-ir-scanner'))
    return req


def run_job_spec(job, variants, keep_dir=None, mode=None):
    """Runs baseline + variants.  The baseline always runs in a pristine forked child.  Variants
    run in-process in the per-hash-seed servers by default (fork + copy-on-write does not scale
    in this VM); if any variant differs, the whole job is run again with every variant in a
    pristine forked child and only what differs *there* is reported, so process-global state
    leaking between in-process runs can never become a verdict."""
    mode = mode or os.environ.get('VERIF_E2_MODE', 'inproc')
    res = _run_job_spec(job, variants, keep_dir, mode)
    if res['mismatches'] and mode != 'fork':
        first = res['mismatches']
        res = _run_job_spec(job, variants, keep_dir, 'fork')
        res['confirmed_in_fork_mode'] = bool(res['mismatches'])
        if not res['mismatches']:
            res['inproc_only'] = [{'variant': m['variant'], 'diff': m['diff']} for m in first[:2]]
    return res


def scratch_dir_for(job):
    """A scratch directory whose *name is a function of the job*, so that anything that depends on
    absolute paths (e.g. hashes of file positions) replays exactly."""
    h = hashlib.sha256(json.dumps(job, sort_keys=True, default=str).encode()).hexdigest()[:16]
    base = os.path.join(tempfile.gettempdir(), 'verif-scan-' + h)
    for suffix in ('', '-b', '-c', '-d'):
        d = base + suffix
        try:
            os.mkdir(d)
        except FileExistsError:
            owner = None
            try:
                owner = int(open(os.path.join(d, 'owner.pid')).read())
                os.kill(owner, 0)
            except (OSError, ValueError):
                owner = None
            if owner is not None:
                continue                     # a live process is using it (concurrent check)
            shutil.rmtree(d, ignore_errors=True)
            try:
                os.mkdir(d)
            except FileExistsError:
                continue
        with open(os.path.join(d, 'owner.pid'), 'w') as f:
            f.write(str(os.getpid()))
        return d
    return tempfile.mkdtemp(prefix='verif-scan-')


def _run_job_spec(job, variants, keep_dir, mode):
    jobdir = keep_dir or scratch_dir_for(job)
    res = {'mismatches': [], 'variants': 0, 'cache_effects': {}, 'schedules': [], 'baseline_status': None}
    try:
        job_path = write_job_dir(job, jobdir)
        build_dependencies(job, jobdir)
        base = run_variant(jobdir, job_path, 0, {}, 'baseline')
        res['baseline_status'] = base['status']
        if base['signal'] is not None or base['status'] in (70, 71):
            raise ServerError('baseline scanner run crashed in the harness (status %r):\n%s' % (
                base['status'], open(base['log']).read()[-3000:]))
        res['baseline_len'] = len(base['data']) if base['data'] is not None else None
        res['baseline_sha'] = hashlib.sha256(base['data'] or b'').hexdigest()[:16]
        res['baseline_data'] = base['data']
        cachedir = os.path.join(jobdir, 'cache')
        state = {}
        for i, v in enumerate(variants):
            if v['kind'] == 'cache':
                apply_cache_step(v['step'], jobdir, cachedir, state)
                before = cache_snapshot(cachedir)
            req = variant_to_request(job, v, jobdir, cachedir, state)
            r = run_variant(jobdir, job_path, v['hashseed'], req, 'v%d' % i, mode)
            if v.get('one_shot'):
                servers().stop(v['hashseed'])
            res['variants'] += 1
            if v['kind'] == 'cache':
                eff = classify_cache_effect(before, cache_snapshot(cachedir))
                key = v['step'] + ':' + eff
                res['cache_effects'][key] = res['cache_effects'].get(key, 0) + 1
                if v['step'] == 'stale':
                    for n in os.listdir(os.path.join(jobdir, 'deps')):
                        os.utime(os.path.join(jobdir, 'deps', n), (FAR_PAST, FAR_PAST))
            res['schedules'].append(hashlib.sha1(json.dumps(
                [v['hashseed'], v.get('file_order'), v.get('comment_perm'), v.get('step')]).encode()).hexdigest()[:12])
            if r['signal'] is not None or r['status'] in (70, 71):
                # an uncaught Python exception in the scanner under this variant but not in the
                # baseline is a difference in behaviour, i.e. a violation, unless the baseline
                # crashed the same way
                pass
            if r['status'] != base['status'] or r['data'] != base['data']:
                res['mismatches'].append({
                    'variant_index': i, 'variant': v, 'status': r['status'], 'baseline_status': base['status'],
                    'diff': first_diff(base['data'], r['data']),
                    'log_tail': open(r['log']).read()[-1500:] if os.path.exists(r['log']) else ''})
        return res
    finally:
        if keep_dir is None:
            shutil.rmtree(jobdir, ignore_errors=True)
        else:
            shutil.rmtree(os.path.join(jobdir, 'cache'), ignore_errors=True)


def first_diff(a, b):
    if a is None or b is None:
        return {'baseline_output': a is not None, 'variant_output': b is not None}
    al, bl = a.decode('utf-8', 'replace').splitlines(), b.decode('utf-8', 'replace').splitlines()
    for i, (x, y) in enumerate(zip(al, bl)):
        if x != y:
            return {'line': i + 1, 'baseline': al[max(0, i - 2):i + 3], 'variant': bl[max(0, i - 2):i + 3]}
    return {'line': min(len(al), len(bl)) + 1, 'baseline_lines': len(al), 'variant_lines': len(bl)}


def make_job(root_seed, index, thorough, prop='C16'):
    seed = core.derive_seed(ENGINE, prop, root_seed, index)
    rng = random.Random(seed)
    job = scanjobs.gen_job(rng, thorough)
    while prop == 'C18' and not job['deps']:
        job = scanjobs.gen_job(rng, thorough)       # the cache only matters with dependencies
    variants = gen_variants(rng, job, thorough, cache_only=(prop == 'C18'))
    return seed, job, variants


def sibling_order_observation(data):
    """Non-gating observation: are the sibling groups the writer sorts in ascending name order?"""
    import xml.etree.ElementTree as ET
    try:
        root = ET.fromstring(data)
    except ET.ParseError:
        return None
    core_ns = '{http://www.gtk.org/introspection/core/1.0}'
    ns = root.find(core_ns + 'namespace')
    if ns is None:
        return None
    groups = sorted_groups = 0
    names = [(c.tag == core_ns + 'alias', c.get('name') or '') for c in ns]
    rest = [n for a, n in names if not a]
    groups += 1
    sorted_groups += rest == sorted(rest)
    for parent in ns:
        for tag in ('constructor', 'method', 'function', 'virtual-method', 'property'):
            ns_ = [c.get('name') or '' for c in parent if c.tag == core_ns + tag]
            if len(ns_) > 1:
                groups += 1
                sorted_groups += ns_ == sorted(ns_)
    return groups, sorted_groups


def exec_job(args):
    root, index, thorough, prop = args
    seed, job, variants = make_job(root, index, thorough, prop)
    out = {'index': index, 'seed': seed, 'harness_error': None, 'violation': None}
    t0 = time.monotonic()
    try:
        # every eighth job runs all its variants in pristine forked children from the start, as a
        # standing cross-check of the in-process mode (which could only ever hide a difference if
        # state leaking between runs made a variant look like the baseline)
        res = run_job_spec(job, variants, mode='fork' if index % 8 == 0 else None)
    except ServerError as e:
        out['harness_error'] = str(e)
        return out
    except Exception as e:
        import traceback
        out['harness_error'] = 'harness: %r\n%s' % (e, traceback.format_exc())
        return out
    out.update({k: res[k] for k in ('variants', 'cache_effects', 'schedules', 'baseline_status', 'baseline_len', 'baseline_sha')})
    out['shape'] = job.get('shape')
    out['ndecls'] = len(job['decls'])
    out['ncomments'] = len(job['comments'])
    out['hashseeds'] = sorted({v['hashseed'] for v in variants})
    out['sorted_obs'] = sibling_order_observation(res['baseline_data']) if res.get('baseline_data') else None
    out['wall'] = time.monotonic() - t0
    out['inproc_only'] = res.get('inproc_only')
    out['fork_mode'] = index % 8 == 0
    if res['mismatches']:
        out['violation'] = res['mismatches'][0]
        out['n_mismatches'] = len(res['mismatches'])
    return out


def c18_slice(root, thorough):
    """The full-pipeline form of C18's last clause, "using the cache never changes the emitted
    GIR": cache histories (cold, warm, entries written under another hash seed, truncated,
    garbage, empty, stale, stamp removed, scanner upgraded) through the real scanner_main on a real
    scratch cache directory; every output must be byte-identical to the cache-less baseline.
    Returns (info for evidence, exit code)."""
    from . import scancal
    cal = scancal.run()
    servers().stop_all()
    cal_failed = bool(cal['problems'])
    if cal_failed:
        print('NOTE stub calibration failed (C18 slice): %s' % cal['problems'][0][:600])
    n = 120 if thorough else 16
    try:
        results = core.pmap(exec_job, [(root, i, thorough, 'C18') for i in range(n)], jobs=min(core.ncpu(), 8),
                            chunk=1, wall_per_chunk=1800, budget_s=300 if thorough else 60,
                            min_items=8, hard_budget_s=900 if thorough else 240)
    except core.WorkerDied as e:
        print('HARNESS-FAILURE C18 slice: %s' % e)
        return None, core.EXIT_HARNESS
    herr = [r for r in results if r['harness_error']]
    if herr:
        print('HARNESS-FAILURE C18 slice job %d: %s' % (herr[0]['index'], herr[0]['harness_error'][:2000]))
        return None, core.EXIT_HARNESS
    eff = {}
    for r in results:
        for k, v in r['cache_effects'].items():
            eff[k] = eff.get(k, 0) + v
    info = {'jobs': len(results), 'scanner_runs': sum(r['variants'] + 1 for r in results),
            'cache_history_steps_and_observed_effect': dict(sorted(eff.items())), 'violations': []}
    code = core.EXIT_HELD
    known, _ = core.load_known()
    for r in results:
        if not r['violation']:
            continue
        seed, job, variants = make_job(root, r['index'], thorough, 'C18')
        m = r['violation']
        sig = 'O7@scanner-output-differs-with-cache:%s' % m['variant'].get('step')
        keep = variants[:m['variant_index'] + 1]
        doc = {'engine': 'scansim', 'property': 'C18', 'verif_seed': root, 'run_index': r['index'], 'seed': seed,
               'job': job, 'variants': keep,
               'violation': {'clause': 'O7', 'signature': sig, 'variant': m['variant'], 'diff': m['diff'],
                             'status': m['status'], 'baseline_status': m['baseline_status']}}
        path = core.write_replay('C18', 'slice-%d-%d' % (root, r['index']), doc)
        k = core.match_known(known, 'C18', sig)
        if k is not None:
            print('KNOWN-FINDING: property=C18 %s' % k['line'][6:].strip())
            continue
        print('violation %s (scanner job %d)' % (sig, r['index']))
        print(json.dumps({'variant': m['variant'], 'diff': m['diff']}, default=str)[:1500])
        print('VIOLATION property=C18 replay=%s' % path)
        info['violations'].append({'signature': sig, 'replay': path})
        code = core.EXIT_VIOLATION
        break
    if cal_failed and code == core.EXIT_HELD:
        print('HARNESS-FAILURE stub calibration failed and the cache-history slice found no difference: nothing can be concluded')
        return info, core.EXIT_HARNESS
    return info, code
