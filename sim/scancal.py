"""Calibration of the stub front end (DESIGN.md §4.2): in-tree headers transcribed into the
declaration IR must regenerate their in-tree expected GIRs byte for byte through the real
scanner_main, with the meson arguments of tests/scanner/meson.build.  A mismatch is a harness
failure (exit 2), not a verdict about the repository."""
import os
import shutil
import sys
import tempfile

from . import core
from . import scansim

VOID = ['void']


def _cases():
    tests = os.path.join(core.REPO, 'tests', 'scanner')
    py = sys.executable
    return [
        {'name': 'headeronly', 'expected': os.path.join(tests, 'Headeronly-1.0-expected.gir'),
         'job': {'ns': 'Headeronly', 'version': '1.0', 'id_prefixes': [], 'sym_prefixes': [], 'includes': [],
                 'options': ['--quiet', '--no-libtool', '--warn-all', '--warn-error', '--reparse-validate'],
                 'file_order': ['headeronly.h'], 'order_before': [], 'comments': [], 'deps': [],
                 'decls': [{'k': 'typedef_enum', 'name': 'HeaderonlyExampleEnum', 'flags': False,
                            'members': [['HEADERONLY_FOO', 0], ['HEADERONLY_BAR', 1]], 'file': 'headeronly.h', 'line': 4}]}},
        {'name': 'symbolfilter', 'expected': os.path.join(tests, 'Symbolfilter-1.0-expected.gir'),
         'job': {'ns': 'Symbolfilter', 'version': '1.0', 'id_prefixes': [], 'sym_prefixes': [], 'includes': [],
                 'options': ['--quiet', '--no-libtool', '--reparse-validate',
                             '--symbol-filter-cmd=%s %s' % (py, os.path.join(tests, 'symbolfilter.py'))],
                 'file_order': ['symbolfilter.h'], 'order_before': [], 'comments': [], 'deps': [],
                 'decls': [
                     {'k': 'typedef_struct_fwd', 'name': 'SymbolfilterObject', 'tag': '_SymbolfilterObject', 'file': 'symbolfilter.h', 'line': 4},
                     {'k': 'function', 'name': 'SymbolfilterObjectNew', 'ret': ['ptr', ['named', 'SymbolfilterObject']], 'params': [], 'file': 'symbolfilter.h', 'line': 6},
                     {'k': 'function', 'name': 'SymbolfilterObjectFooMethod', 'ret': VOID, 'params': [['self', ['ptr', ['named', 'SymbolfilterObject']]]], 'file': 'symbolfilter.h', 'line': 7},
                     {'k': 'function', 'name': 'SymbolfilterObjectFree', 'ret': VOID, 'params': [['self', ['ptr', ['named', 'SymbolfilterObject']]]], 'file': 'symbolfilter.h', 'line': 8}]}},
        {'name': 'identfilter', 'expected': os.path.join(tests, 'Identfilter-1.0-expected.gir'),
         'job': {'ns': 'Identfilter', 'version': '1.0', 'id_prefixes': [], 'sym_prefixes': [], 'includes': [],
                 'options': ['--quiet', '--no-libtool', '--accept-unprefixed', '--reparse-validate',
                             '--identifier-filter-cmd=%s "%s"' % (py, os.path.join(tests, 'identfilter.py'))],
                 'file_order': ['identfilter.h'], 'order_before': [], 'comments': [], 'deps': [],
                 'decls': [
                     {'k': 'typedef_struct_fwd', 'name': 'identfilter_t', 'tag': '_identfilter', 'file': 'identfilter.h', 'line': 4},
                     {'k': 'typedef_struct_fwd', 'name': 'identfilter_object_t', 'tag': '_identfilter_object', 'file': 'identfilter.h', 'line': 5},
                     {'k': 'function', 'name': 'identfilter_object_new', 'ret': ['ptr', ['named', 'identfilter_object_t']], 'params': [], 'file': 'identfilter.h', 'line': 7},
                     {'k': 'function', 'name': 'identfilter_object_foo_method', 'ret': VOID, 'params': [['self', ['ptr', ['named', 'identfilter_object_t']]]], 'file': 'identfilter.h', 'line': 8},
                     {'k': 'function', 'name': 'identfilter_object_free', 'ret': VOID, 'params': [['self', ['ptr', ['named', 'identfilter_object_t']]]], 'file': 'identfilter.h', 'line': 9}]}},
        _typedefs_case(tests),
        _gettype_case(tests),
        _bar_case(tests),
        _sletter_case(tests),
        {'name': 'gtkfrob', 'expected': os.path.join(tests, 'GtkFrob-1.0-expected.gir'),
         'blank': [b' shared-library="libgtkfrob-1.0.so"', b' shared-library=""'],
         'job': {'ns': 'GtkFrob', 'version': '1.0', 'id_prefixes': ['Gtk'], 'sym_prefixes': ['gtk_frob'],
                 'includes': ['GObject-2.0'], 'program': 'bin/dumper', 'dump': {}, 'error_quarks': {},
                 'options': ['--quiet', '--no-libtool', '--reparse-validate', '--warn-all', '--warn-error', '--pkg=gobject-2.0'],
                 'file_order': ['gtkfrob.c', 'gtkfrob.h'], 'order_before': [], 'comments': [], 'deps': [],
                 'decls': [{'k': 'function', 'name': 'gtk_frob_language_manager_get_default', 'ret': ['void'], 'params': [],
                            'file': 'gtkfrob.h', 'line': 11}]}},
    ]


def _sletter_case(tests):
    """tests/scanner/sletter.h: a one-letter identifier prefix, error-quark functions paired with
    enumerations that are not registered types (through the dump's <error-quark> entries)."""
    h = 'sletter.h'
    DBL = ['basic', 'double']

    def enum(name, base, line, end):
        return {'k': 'typedef_enum', 'name': name, 'flags': False, 'file': h, 'line': line, 'end': end,
                'members': [['%s_CODE%d' % (base, i), i] for i in (1, 2, 3)]}
    decls = [
        {'k': 'typedef_struct', 'name': 'SPoint', 'tag': None, 'file': h, 'line': 8,
         'members': [{'name': 'x', 'type': DBL}, {'name': 'y', 'type': DBL}]},
        {'k': 'function', 'name': 's_hello', 'ret': ['void'], 'params': [], 'file': h, 'line': 14},
        enum('SSpawnError', 'S_SPAWN_ERROR', 17, 22),
        {'k': 'function', 'name': 's_spawn_error_quark', 'ret': ['named', 'GQuark'], 'params': [], 'file': h, 'line': 25},
        enum('SDBusError', 'S_DBUS_ERROR', 28, 33),
        {'k': 'function', 'name': 's_dbus_error_quark', 'ret': ['named', 'GQuark'], 'params': [], 'file': h, 'line': 36},
    ]
    quarks = {'s_spawn_error_quark': '<error-quark function="s_spawn_error_quark" domain="s-spawn-error"/>',
              's_dbus_error_quark': '<error-quark function="s_dbus_error_quark" domain="s-dbus-error"/>'}
    return {'name': 'sletter', 'expected': os.path.join(tests, 'SLetter-1.0-expected.gir'),
            'blank': [b' shared-library="libsletter-1.0.so"', b' shared-library=""'],
            'job': {'ns': 'SLetter', 'version': '1.0', 'id_prefixes': ['S'], 'sym_prefixes': [],
                    'includes': ['Gio-2.0'], 'program': 'bin/dumper', 'dump': {}, 'error_quarks': quarks,
                    'options': ['--quiet', '--no-libtool', '--reparse-validate', '--warn-all', '--warn-error', '--c-include=sletter.h'],
                    'file_order': ['sletter.c', h], 'order_before': [], 'comments': [], 'deps': [], 'decls': decls}}


def _bar_case(tests):
    """tests/scanner/barapp.h: --accept-unprefixed, struct tags equal to the typedef names, a
    class (MutterWindow) whose identifier does not carry the namespace prefix."""
    h, c = 'barapp.h', 'barapp.c'

    def cls(name, typedef_line, inst, klass):
        return [
            {'k': 'typedef_struct_fwd', 'name': name, 'tag': name, 'file': h, 'line': typedef_line},
            {'k': 'typedef_struct_fwd', 'name': name + 'Class', 'tag': name + 'Class', 'file': h, 'line': typedef_line + 1},
            {'k': 'struct_def', 'tag': name, 'members': [{'name': 'parent_instance', 'type': ['named', 'GObject']}], 'file': h, 'line': inst[0], 'end': inst[1]},
            {'k': 'struct_def', 'tag': name + 'Class', 'members': [{'name': 'parent_class', 'type': ['named', 'GObjectClass']}], 'file': h, 'line': klass[0], 'end': klass[1]},
        ]
    decls = [
        {'k': 'function_macro', 'name': 'BAR_BAZ', 'params': ['object'], 'file': h, 'line': 7},
        {'k': 'function_macro', 'name': 'BAR_IS_BAZ', 'params': ['object'], 'file': h, 'line': 8},
    ] + cls('BarBaz', 10, (13, 16), (18, 21)) + [
        {'k': 'function', 'name': 'bar_baz_get_type', 'ret': ['named', 'GType'], 'params': [], 'file': h, 'line': 24},
        {'k': 'function', 'name': 'bar_app_func', 'ret': ['void'], 'params': [], 'file': h, 'line': 28},
        {'k': 'function', 'name': 'bar_app_func2', 'ret': ['void'], 'params': [['x', ['basic', 'int']], ['y', ['basic', 'double']]], 'file': h, 'line': 31},
        {'k': 'function_macro', 'name': 'MUTTER_WINDOW', 'params': ['object'], 'file': h, 'line': 39},
        {'k': 'function_macro', 'name': 'MUTTER_IS_WINDOW', 'params': ['object'], 'file': h, 'line': 40},
    ] + cls('MutterWindow', 42, (45, 48), (50, 53)) + [
        {'k': 'function', 'name': 'mutter_window_get_type', 'ret': ['named', 'GType'], 'params': [], 'file': h, 'line': 56},
        {'k': 'function', 'name': 'mutter_window_func', 'ret': ['void'],
         'params': [['window', ['ptr', ['named', 'MutterWindow']]], ['v', ['named', 'guint']]], 'file': h, 'line': 59},
    ]
    dump = {'bar_baz_get_type': '<class name="BarBaz" get-type="bar_baz_get_type" parents="GObject"/>',
            'mutter_window_get_type': '<class name="MutterWindow" get-type="mutter_window_get_type" parents="GObject"/>'}
    return {'name': 'bar', 'expected': os.path.join(tests, 'Bar-1.0-expected.gir'),
            'blank': [b' shared-library="libbarapp-1.0.so"', b' shared-library=""'],
            'job': {'ns': 'Bar', 'version': '1.0', 'id_prefixes': [], 'sym_prefixes': [],
                    'includes': ['GObject-2.0'], 'program': 'bin/dumper', 'error_quarks': {}, 'dump': dump,
                    'options': ['--quiet', '--no-libtool', '--reparse-validate', '--warn-all', '--warn-error', '--pkg=gobject-2.0',
                                '--accept-unprefixed', '--doc-format=gi-docgen'],
                    'file_order': [c, h], 'order_before': [], 'deps': [], 'decls': decls, 'comments': []}}


def _gettype_case(tests):
    """tests/scanner/gettype.[ch]: a GObject class through the dump, function macros, functions
    that look like but are not get_type functions, comment blocks taken verbatim from gettype.c."""
    h, c = 'gettype.h', 'gettype.c'
    src = open(os.path.join(tests, c)).read().split('\n')

    def comment(first, last):
        return ['\n'.join(src[first - 1:last]), c, first]
    OBJP = ['ptr', ['named', 'GetTypeObject']]
    decls = [
        {'k': 'function_macro', 'name': 'GETTYPE_OBJECT', 'params': ['object'], 'file': h, 'line': 9},
        {'k': 'function_macro', 'name': 'GETTYPE_IS_OBJECT', 'params': ['object'], 'file': h, 'line': 10},
        {'k': 'typedef_struct_fwd', 'name': 'GetTypeObject', 'tag': '_GetTypeObject', 'file': h, 'line': 12},
        {'k': 'typedef_struct_fwd', 'name': 'GetTypeObjectClass', 'tag': '_GetTypeObjectClass', 'file': h, 'line': 13},
        {'k': 'struct_def', 'tag': '_GetTypeObject', 'members': [{'name': 'parent_instance', 'type': ['named', 'GObject']}], 'file': h, 'line': 14, 'end': 17},
        {'k': 'struct_def', 'tag': '_GetTypeObjectClass', 'members': [{'name': 'parent_class', 'type': ['named', 'GObjectClass']}], 'file': h, 'line': 19, 'end': 22},
        {'k': 'function', 'name': 'gettype_object_get_type', 'ret': ['named', 'GType'], 'params': [], 'file': h, 'line': 25},
        {'k': 'function', 'name': 'gettype_object_new', 'ret': OBJP, 'params': [], 'file': h, 'line': 28},
        {'k': 'function', 'name': 'gettype_object_nonmeta1_get_type', 'ret': ['named', 'GType'], 'params': [['obj', OBJP]], 'file': h, 'line': 32},
        {'k': 'function', 'name': 'gettype_object_nonmeta2_get_type', 'ret': ['named', 'gboolean'], 'params': [], 'file': h, 'line': 35},
        {'k': 'function', 'name': 'gettype_object_nonmeta_get_gtype', 'ret': ['named', 'gboolean'], 'params': [], 'file': h, 'line': 38},
    ]
    fn = 'gettype_object_get_type'
    return {'name': 'gettype', 'expected': os.path.join(tests, 'GetType-1.0-expected.gir'),
            'blank': [b' shared-library="libgettype-1.0.so"', b' shared-library=""'],
            'job': {'ns': 'GetType', 'version': '1.0', 'id_prefixes': ['GetType'], 'sym_prefixes': ['gettype'],
                    'includes': ['GObject-2.0'], 'program': 'bin/dumper', 'error_quarks': {},
                    'dump': {fn: '<class name="GetTypeObject" get-type="%s" parents="GObject"/>' % fn},
                    'options': ['--quiet', '--no-libtool', '--reparse-validate', '--pkg=gobject-2.0', '--c-include=gettype.h'],
                    'file_order': [c, h], 'order_before': [], 'deps': [], 'decls': decls,
                    'comments': [comment(23, 31), comment(38, 45), comment(52, 59)]}}


def _typedefs_case(tests):
    """tests/scanner/typedefs.h: every typedef/struct ordering, plain and boxed, through the dump
    path (stub introspection binary, synthetic GObject GIR).  The expected GIR names the shared
    library, which needs ldd on a real binary; that one attribute is blanked before comparing."""
    f = 'typedefs.h'
    INT = [{'name': 'value', 'type': ['basic', 'int']}]
    P = 'Typedefs'

    def fwd(name, line):
        return {'k': 'typedef_struct_fwd', 'name': P + name, 'tag': '_' + P + name, 'file': f, 'line': line}

    def body(name, line):
        return {'k': 'struct_def', 'tag': '_' + P + name, 'members': INT, 'file': f, 'line': line}

    def gt(snake, line):
        return {'k': 'function', 'name': 'typedefs_%s_get_type' % snake, 'ret': ['named', 'GType'], 'params': [], 'file': f, 'line': line}
    decls = [
        {'k': 'typedef_struct', 'name': P + 'StructWithAnonymousTypedef', 'tag': None, 'members': INT, 'file': f, 'line': 13},
        fwd('StructWithTypedefBefore', 18), body('StructWithTypedefBefore', 19),
        body('StructWithTypedefAfter', 25), fwd('StructWithTypedefAfter', 28),
        {'k': 'typedef_struct', 'name': P + 'StructWithTagAndTypedef', 'tag': '_' + P + 'StructWithTagAndTypedef', 'members': INT, 'file': f, 'line': 32},
        fwd('BoxedWithTypedefBefore', 41), body('BoxedWithTypedefBefore', 42), gt('boxed_with_typedef_before', 47),
        body('BoxedWithTypedefAfter', 51), fwd('BoxedWithTypedefAfter', 54), gt('boxed_with_typedef_after', 57),
        {'k': 'typedef_struct', 'name': P + 'BoxedWithTagAndTypedef', 'tag': '_' + P + 'BoxedWithTagAndTypedef', 'members': INT, 'file': f, 'line': 61},
        gt('boxed_with_tag_and_typedef', 66),
        {'k': 'typedef_struct', 'name': P + 'BoxedWithAnonymousTypedef', 'tag': None, 'members': INT, 'file': f, 'line': 70},
        gt('boxed_with_anonymous_typedef', 75),
        fwd('BoxedWithHiddenStruct', 79), gt('boxed_with_hidden_struct', 82),
    ]
    dump = {}
    for camel, snake in (('BoxedWithTypedefBefore', 'boxed_with_typedef_before'), ('BoxedWithTypedefAfter', 'boxed_with_typedef_after'),
                         ('BoxedWithTagAndTypedef', 'boxed_with_tag_and_typedef'), ('BoxedWithAnonymousTypedef', 'boxed_with_anonymous_typedef'),
                         ('BoxedWithHiddenStruct', 'boxed_with_hidden_struct')):
        fn = 'typedefs_%s_get_type' % snake
        dump[fn] = '<boxed name="%s%s" get-type="%s"/>' % (P, camel, fn)
    return {'name': 'typedefs', 'expected': os.path.join(tests, 'Typedefs-1.0-expected.gir'),
            'blank': [b' shared-library="libtypedef-1.0.so"', b' shared-library=""'],
            'job': {'ns': 'Typedefs', 'version': '1.0', 'id_prefixes': ['Typedefs'], 'sym_prefixes': ['typedefs'],
                    'includes': ['GObject-2.0'], 'program': 'bin/dumper', 'dump': dump, 'error_quarks': {},
                    'options': ['--quiet', '--no-libtool', '--reparse-validate', '--warn-all', '--warn-error', '--pkg=gobject-2.0',
                                '--c-include=typedefs.h', '--doc-format=gtk-doc-markdown'],
                    'file_order': ['typedefs.c', f], 'order_before': [], 'comments': [], 'deps': [], 'decls': decls}}


def run():
    problems, done = [], []
    for case in _cases():
        jobdir = tempfile.mkdtemp(prefix='verif-cal-')
        try:
            jp = scansim.write_job_dir(case['job'], jobdir)
            r = scansim.run_variant(jobdir, jp, 0, {}, 'cal')
            want = open(case['expected'], 'rb').read()
            if case.get('blank'):
                want = want.replace(case['blank'][0], case['blank'][1])
            if r['status'] != 0 or r['data'] != want:
                log = open(r['log']).read()[-1200:] if os.path.exists(r['log']) else ''
                problems.append('%s: the stub front end does not regenerate %s (status %r)\n%s\n%s' % (
                    case['name'], os.path.basename(case['expected']), r['status'],
                    scansim.first_diff(want, r['data']), log))
            else:
                done.append(case['name'])
        except scansim.ServerError as e:
            problems.append('%s: %s' % (case['name'], e))
        finally:
            shutil.rmtree(jobdir, ignore_errors=True)
    from . import scanchild
    return {'problems': problems, 'cases_byte_identical': done, 'low_seam': bool(scanchild.low_seam_available())}
