"""Calibration of the stub front end (DESIGN.md §4.2): in-tree headers transcribed into the
declaration IR must regenerate their in-tree expected GIRs byte for byte through the real
scanner_main, with the meson arguments of tests/scanner/meson.build.  A mismatch is a harness
failure (exit 2), not a verdict about the repository."""
import os
import shutil
import sys
import tempfile

from . import core
from . import scansim

VOID = ['void']


def _cases():
    tests = os.path.join(core.REPO, 'tests', 'scanner')
    py = sys.executable
    return [
        {'name': 'headeronly', 'expected': os.path.join(tests, 'Headeronly-1.0-expected.gir'),
         'job': {'ns': 'Headeronly', 'version': '1.0', 'id_prefixes': [], 'sym_prefixes': [], 'includes': [],
                 'options': ['--quiet', '--no-libtool', '--warn-all', '--warn-error', '--reparse-validate'],
                 'file_order': ['headeronly.h'], 'order_before': [], 'comments': [], 'deps': [],
                 'decls': [{'k': 'typedef_enum', 'name': 'HeaderonlyExampleEnum', 'flags': False,
                            'members': [['HEADERONLY_FOO', 0], ['HEADERONLY_BAR', 1]], 'file': 'headeronly.h', 'line': 4}]}},
        {'name': 'symbolfilter', 'expected': os.path.join(tests, 'Symbolfilter-1.0-expected.gir'),
         'job': {'ns': 'Symbolfilter', 'version': '1.0', 'id_prefixes': [], 'sym_prefixes': [], 'includes': [],
                 'options': ['--quiet', '--no-libtool', '--reparse-validate',
                             '--symbol-filter-cmd=%s %s' % (py, os.path.join(tests, 'symbolfilter.py'))],
                 'file_order': ['symbolfilter.h'], 'order_before': [], 'comments': [], 'deps': [],
                 'decls': [
                     {'k': 'typedef_struct_fwd', 'name': 'SymbolfilterObject', 'tag': '_SymbolfilterObject', 'file': 'symbolfilter.h', 'line': 4},
                     {'k': 'function', 'name': 'SymbolfilterObjectNew', 'ret': ['ptr', ['named', 'SymbolfilterObject']], 'params': [], 'file': 'symbolfilter.h', 'line': 6},
                     {'k': 'function', 'name': 'SymbolfilterObjectFooMethod', 'ret': VOID, 'params': [['self', ['ptr', ['named', 'SymbolfilterObject']]]], 'file': 'symbolfilter.h', 'line': 7},
                     {'k': 'function', 'name': 'SymbolfilterObjectFree', 'ret': VOID, 'params': [['self', ['ptr', ['named', 'SymbolfilterObject']]]], 'file': 'symbolfilter.h', 'line': 8}]}},
        {'name': 'identfilter', 'expected': os.path.join(tests, 'Identfilter-1.0-expected.gir'),
         'job': {'ns': 'Identfilter', 'version': '1.0', 'id_prefixes': [], 'sym_prefixes': [], 'includes': [],
                 'options': ['--quiet', '--no-libtool', '--accept-unprefixed', '--reparse-validate',
                             '--identifier-filter-cmd=%s "%s"' % (py, os.path.join(tests, 'identfilter.py'))],
                 'file_order': ['identfilter.h'], 'order_before': [], 'comments': [], 'deps': [],
                 'decls': [
                     {'k': 'typedef_struct_fwd', 'name': 'identfilter_t', 'tag': '_identfilter', 'file': 'identfilter.h', 'line': 4},
                     {'k': 'typedef_struct_fwd', 'name': 'identfilter_object_t', 'tag': '_identfilter_object', 'file': 'identfilter.h', 'line': 5},
                     {'k': 'function', 'name': 'identfilter_object_new', 'ret': ['ptr', ['named', 'identfilter_object_t']], 'params': [], 'file': 'identfilter.h', 'line': 7},
                     {'k': 'function', 'name': 'identfilter_object_foo_method', 'ret': VOID, 'params': [['self', ['ptr', ['named', 'identfilter_object_t']]]], 'file': 'identfilter.h', 'line': 8},
                     {'k': 'function', 'name': 'identfilter_object_free', 'ret': VOID, 'params': [['self', ['ptr', ['named', 'identfilter_object_t']]]], 'file': 'identfilter.h', 'line': 9}]}},
        _typedefs_case(tests),
    ]


def _typedefs_case(tests):
    """tests/scanner/typedefs.h: every typedef/struct ordering, plain and boxed, through the dump
    path (stub introspection binary, synthetic GObject GIR).  The expected GIR names the shared
    library, which needs ldd on a real binary; that one attribute is blanked before comparing."""
    f = 'typedefs.h'
    INT = [{'name': 'value', 'type': ['basic', 'int']}]
    P = 'Typedefs'

    def fwd(name, line):
        return {'k': 'typedef_struct_fwd', 'name': P + name, 'tag': '_' + P + name, 'file': f, 'line': line}

    def body(name, line):
        return {'k': 'struct_def', 'tag': '_' + P + name, 'members': INT, 'file': f, 'line': line}

    def gt(snake, line):
        return {'k': 'function', 'name': 'typedefs_%s_get_type' % snake, 'ret': ['named', 'GType'], 'params': [], 'file': f, 'line': line}
    decls = [
        {'k': 'typedef_struct', 'name': P + 'StructWithAnonymousTypedef', 'tag': None, 'members': INT, 'file': f, 'line': 13},
        fwd('StructWithTypedefBefore', 18), body('StructWithTypedefBefore', 19),
        body('StructWithTypedefAfter', 25), fwd('StructWithTypedefAfter', 28),
        {'k': 'typedef_struct', 'name': P + 'StructWithTagAndTypedef', 'tag': '_' + P + 'StructWithTagAndTypedef', 'members': INT, 'file': f, 'line': 32},
        fwd('BoxedWithTypedefBefore', 41), body('BoxedWithTypedefBefore', 42), gt('boxed_with_typedef_before', 47),
        body('BoxedWithTypedefAfter', 51), fwd('BoxedWithTypedefAfter', 54), gt('boxed_with_typedef_after', 57),
        {'k': 'typedef_struct', 'name': P + 'BoxedWithTagAndTypedef', 'tag': '_' + P + 'BoxedWithTagAndTypedef', 'members': INT, 'file': f, 'line': 61},
        gt('boxed_with_tag_and_typedef', 66),
        {'k': 'typedef_struct', 'name': P + 'BoxedWithAnonymousTypedef', 'tag': None, 'members': INT, 'file': f, 'line': 70},
        gt('boxed_with_anonymous_typedef', 75),
        fwd('BoxedWithHiddenStruct', 79), gt('boxed_with_hidden_struct', 82),
    ]
    dump = {}
    for camel, snake in (('BoxedWithTypedefBefore', 'boxed_with_typedef_before'), ('BoxedWithTypedefAfter', 'boxed_with_typedef_after'),
                         ('BoxedWithTagAndTypedef', 'boxed_with_tag_and_typedef'), ('BoxedWithAnonymousTypedef', 'boxed_with_anonymous_typedef'),
                         ('BoxedWithHiddenStruct', 'boxed_with_hidden_struct')):
        fn = 'typedefs_%s_get_type' % snake
        dump[fn] = '<boxed name="%s%s" get-type="%s"/>' % (P, camel, fn)
    return {'name': 'typedefs', 'expected': os.path.join(tests, 'Typedefs-1.0-expected.gir'),
            'blank': [b' shared-library="libtypedef-1.0.so"', b' shared-library=""'],
            'job': {'ns': 'Typedefs', 'version': '1.0', 'id_prefixes': ['Typedefs'], 'sym_prefixes': ['typedefs'],
                    'includes': ['GObject-2.0'], 'program': 'bin/dumper', 'dump': dump, 'error_quarks': {},
                    'options': ['--quiet', '--no-libtool', '--reparse-validate', '--warn-all', '--warn-error', '--pkg=gobject-2.0',
                                '--c-include=typedefs.h', '--doc-format=gtk-doc-markdown'],
                    'file_order': ['typedefs.c', f], 'order_before': [], 'comments': [], 'deps': [], 'decls': decls}}


def run():
    problems, done = [], []
    for case in _cases():
        jobdir = tempfile.mkdtemp(prefix='verif-cal-')
        try:
            jp = scansim.write_job_dir(case['job'], jobdir)
            r = scansim.run_variant(jobdir, jp, 0, {}, 'cal')
            want = open(case['expected'], 'rb').read()
            if case.get('blank'):
                want = want.replace(case['blank'][0], case['blank'][1])
            if r['status'] != 0 or r['data'] != want:
                log = open(r['log']).read()[-1200:] if os.path.exists(r['log']) else ''
                problems.append('%s: the stub front end does not regenerate %s (status %r)\n%s\n%s' % (
                    case['name'], os.path.basename(case['expected']), r['status'],
                    scansim.first_diff(want, r['data']), log))
            else:
                done.append(case['name'])
        except scansim.ServerError as e:
            problems.append('%s: %s' % (case['name'], e))
        finally:
            shutil.rmtree(jobdir, ignore_errors=True)
    return {'problems': problems, 'cases_byte_identical': done}
