"""Calibration of the stub front end (DESIGN.md §4.2): in-tree headers transcribed into the
declaration IR must regenerate their in-tree expected GIRs byte for byte through the real
scanner_main, with the meson arguments of tests/scanner/meson.build.  A mismatch is a harness
failure (exit 2), not a verdict about the repository."""
import os
import shutil
import sys
import tempfile

from . import core
from . import scansim

VOID = ['void']


def _cases():
    tests = os.path.join(core.REPO, 'tests', 'scanner')
    py = sys.executable
    return [
        {'name': 'headeronly', 'expected': os.path.join(tests, 'Headeronly-1.0-expected.gir'),
         'job': {'ns': 'Headeronly', 'version': '1.0', 'id_prefixes': [], 'sym_prefixes': [], 'includes': [],
                 'options': ['--quiet', '--no-libtool', '--warn-all', '--warn-error', '--reparse-validate'],
                 'file_order': ['headeronly.h'], 'order_before': [], 'comments': [], 'deps': [],
                 'decls': [{'k': 'typedef_enum', 'name': 'HeaderonlyExampleEnum', 'flags': False,
                            'members': [['HEADERONLY_FOO', 0], ['HEADERONLY_BAR', 1]], 'file': 'headeronly.h', 'line': 4}]}},
        {'name': 'symbolfilter', 'expected': os.path.join(tests, 'Symbolfilter-1.0-expected.gir'),
         'job': {'ns': 'Symbolfilter', 'version': '1.0', 'id_prefixes': [], 'sym_prefixes': [], 'includes': [],
                 'options': ['--quiet', '--no-libtool', '--reparse-validate',
                             '--symbol-filter-cmd=%s %s' % (py, os.path.join(tests, 'symbolfilter.py'))],
                 'file_order': ['symbolfilter.h'], 'order_before': [], 'comments': [], 'deps': [],
                 'decls': [
                     {'k': 'typedef_struct_fwd', 'name': 'SymbolfilterObject', 'tag': '_SymbolfilterObject', 'file': 'symbolfilter.h', 'line': 4},
                     {'k': 'function', 'name': 'SymbolfilterObjectNew', 'ret': ['ptr', ['named', 'SymbolfilterObject']], 'params': [], 'file': 'symbolfilter.h', 'line': 6},
                     {'k': 'function', 'name': 'SymbolfilterObjectFooMethod', 'ret': VOID, 'params': [['self', ['ptr', ['named', 'SymbolfilterObject']]]], 'file': 'symbolfilter.h', 'line': 7},
                     {'k': 'function', 'name': 'SymbolfilterObjectFree', 'ret': VOID, 'params': [['self', ['ptr', ['named', 'SymbolfilterObject']]]], 'file': 'symbolfilter.h', 'line': 8}]}},
        {'name': 'identfilter', 'expected': os.path.join(tests, 'Identfilter-1.0-expected.gir'),
         'job': {'ns': 'Identfilter', 'version': '1.0', 'id_prefixes': [], 'sym_prefixes': [], 'includes': [],
                 'options': ['--quiet', '--no-libtool', '--accept-unprefixed', '--reparse-validate',
                             '--identifier-filter-cmd=%s "%s"' % (py, os.path.join(tests, 'identfilter.py'))],
                 'file_order': ['identfilter.h'], 'order_before': [], 'comments': [], 'deps': [],
                 'decls': [
                     {'k': 'typedef_struct_fwd', 'name': 'identfilter_t', 'tag': '_identfilter', 'file': 'identfilter.h', 'line': 4},
                     {'k': 'typedef_struct_fwd', 'name': 'identfilter_object_t', 'tag': '_identfilter_object', 'file': 'identfilter.h', 'line': 5},
                     {'k': 'function', 'name': 'identfilter_object_new', 'ret': ['ptr', ['named', 'identfilter_object_t']], 'params': [], 'file': 'identfilter.h', 'line': 7},
                     {'k': 'function', 'name': 'identfilter_object_foo_method', 'ret': VOID, 'params': [['self', ['ptr', ['named', 'identfilter_object_t']]]], 'file': 'identfilter.h', 'line': 8},
                     {'k': 'function', 'name': 'identfilter_object_free', 'ret': VOID, 'params': [['self', ['ptr', ['named', 'identfilter_object_t']]]], 'file': 'identfilter.h', 'line': 9}]}},
    ]


def run():
    problems, done = [], []
    for case in _cases():
        jobdir = tempfile.mkdtemp(prefix='verif-cal-')
        try:
            jp = scansim.write_job_dir(case['job'], jobdir)
            r = scansim.run_variant(jobdir, jp, 0, {}, 'cal')
            want = open(case['expected'], 'rb').read()
            if r['status'] != 0 or r['data'] != want:
                log = open(r['log']).read()[-1200:] if os.path.exists(r['log']) else ''
                problems.append('%s: the stub front end does not regenerate %s (status %r)\n%s\n%s' % (
                    case['name'], os.path.basename(case['expected']), r['status'],
                    scansim.first_diff(want, r['data']), log))
            else:
                done.append(case['name'])
        except scansim.ServerError as e:
            problems.append('%s: %s' % (case['name'], e))
        finally:
            shutil.rmtree(jobdir, ignore_errors=True)
    return {'problems': problems, 'cases_byte_identical': done}
