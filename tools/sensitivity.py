#!/venv/bin/python
"""Sensitivity self-check: apply each hand-written mutant of DESIGN.md §3.9/§4.6/§5.4 to a scratch
copy of /repo's giscanner package (outside /repo and /verif), run the quick check against the
copy (VERIF_REPO), expect exit 1, delete the copy.  Not a registered check; its results are
recorded in DESIGN.md.

    tools/sensitivity.py [C18|C16|C20] [name-substring]
"""
import json
import os
import shutil
import subprocess
import sys
import tempfile
import time

VERIF = os.path.dirname(os.path.dirname(os.path.abspath(__file__)))
REPO = '/repo'

M = []


def mut(prop, name, path, old, new, expect=1, note=''):
    M.append({'prop': prop, 'name': name, 'path': path, 'old': old, 'new': new, 'expect': expect, 'note': note})


# ---- C20 (xmlwriter) -------------------------------------------------------------------
X = 'giscanner/xmlwriter.py'
mut('C20', 'tagcontext-no-finally', X, "        try:\n            yield\n        finally:\n            self.pop_tag()",
    "        yield\n        self.pop_tag()")
mut('C20', 'tagcontext-pop-before-yield', X, "        self.push_tag(tag_name, attributes)\n        try:\n            yield\n        finally:\n            self.pop_tag()",
    "        self.push_tag(tag_name, attributes)\n        self.pop_tag()\n        yield")
mut('C20', 'no-escape-data', X, "suffix = '>%s</%s>' % (escape(data), tag_name)", "suffix = '>%s</%s>' % (data, tag_name)")
mut('C20', 'quoteattr-to-plain-quotes', X, "attr_value += ' %s=%s' % (attr, quoteattr(value))", "attr_value += ' %s=\"%s\"' % (attr, escape(value))")
mut('C20', 'none-attr-written', X, "        if value is None:\n            continue\n        if indent_len and not first:",
    "        if value is None:\n            value = 'None'\n        if indent_len and not first:")
mut('C20', 'wrap-drops-first-flag', X, "        if first:\n            first = False\n    return attr_value", "    return attr_value",
    note='separator emitted before the first attribute as well: harmless whitespace inside the tag; must NOT be flagged', expect=0)
mut('C20', 'wrap-loses-attribute', X, "        if indent_len and not first:\n            attr_value += '\\n%s' % (self_indent_char * indent_len)\n        attr_value += ' %s=%s' % (attr, quoteattr(value))",
    "        if indent_len and not first:\n            attr_value += '\\n%s' % (self_indent_char * indent_len)\n            if len(attr_value) > 400:\n                continue\n        attr_value += ' %s=%s' % (attr, quoteattr(value))")
mut('C20', 'indent-leak-on-pop', X, "        self._indent -= self._indent_unit\n        tag_name = self._tag_stack.pop()",
    "        tag_name = self._tag_stack.pop()\n        if not self._tag_stack or len(self._tag_stack) < 3:\n            self._indent -= self._indent_unit",
    note="indentation is the writer's own formatting, not content handed to it: C20 does not constrain it; must NOT be flagged", expect=0)
mut('C20', 'write-line-escape-skipped', X, "        if do_escape:\n            line = escape(line)", "        if do_escape and '&' not in line:\n            line = escape(line)")
mut('C20', 'wrap-separator-inside-value', X, "        attr_length += 2 + len(attr) + len(quoteattr(value))", "        attr_length += 2 + len(attr) + len(value)",
    note='only changes when wrapping happens, never content; must NOT be flagged', expect=0)

# ---- C18 (cachestore) ------------------------------------------------------------------
C = 'giscanner/cachestore.py'
T = 'giscanner/transformer.py'
mut('C18', 'D7-reintroduced-key-is-path-as-spelled', C, "        filename = self._version + os.path.abspath(filename)\n", "        filename = self._version + filename\n")
mut('C18', 'D8-reintroduced-entry-names-without-version', C, "        filename = self._version + os.path.abspath(filename)\n", "        filename = os.path.abspath(filename)\n")
mut('C18', 'entry-names-sha256', C, "hexdigest = hashlib.sha1(filename.encode('utf-8')).hexdigest()", "hexdigest = hashlib.sha256(filename.encode('utf-8')).hexdigest()",
    expect=0, note='another naming scheme for entries: the harness learns entry names from the code and must NOT flag this')
mut('C18', 'D1-reintroduced', C, "if not self._cache_is_valid(fd.fileno(), filename):", "if not self._cache_is_valid(store_filename, filename):")
mut('C18', 'D2-reintroduced', C, "if e.errno in (errno.EACCES, errno.ENOENT):\n                self._remove_filename(tmp_filename)", "if e.errno == errno.EACCES:\n                self._remove_filename(tmp_filename)")
mut('C18', 'D3-reintroduced', T, "                self._cachestore.store(filename, parser, mtime_ns)", "                self._cachestore.store(filename, parser)")
mut('C18', 'D3-mtime-read-after-parse', T, "            mtime_ns = os.stat(filename).st_mtime_ns\n            parser = GIRParser(types_only=not self._passthrough_mode)\n            parser.parse(filename)",
    "            parser = GIRParser(types_only=not self._passthrough_mode)\n            parser.parse(filename)\n            mtime_ns = os.stat(filename).st_mtime_ns")
mut('C18', 'D4-reintroduced-tmp-in-tmpdir', C, "            tmp_fd, tmp_filename = tempfile.mkstemp(prefix='g-ir-scanner-cache-',\n                                                    dir=self._directory)",
    "            tmp_fd, tmp_filename = tempfile.mkstemp(prefix='g-ir-scanner-cache-')")
mut('C18', 'utime-after-move', C, "            if mtime_ns is not None:\n                # Date the entry like the file it was parsed from, so that a\n                # later change of that file always makes the entry stale.\n                os.utime(tmp_filename, ns=(mtime_ns, mtime_ns))\n", "",
    note='two-site: the time stamp is set on the entry after the move instead of on the temp file before it')
M[-1]['also'] = [(C, "        try:\n            shutil.move(tmp_filename, store_filename)\n        except", "        try:\n            shutil.move(tmp_filename, store_filename)\n            if mtime_ns is not None:\n                os.utime(store_filename, ns=(mtime_ns, mtime_ns))\n        except")]
mut('C18', 'purge-removes-inflight-temp-not-tolerated', C, "            if e.errno in (errno.ENOSPC, errno.ENOENT):\n                self._remove_filename(tmp_filename)", "            if e.errno == errno.ENOSPC:\n                self._remove_filename(tmp_filename)")
mut('C18', 'freshness-removed-in-load', C, "            if not self._cache_is_valid(fd.fileno(), filename):\n                return None\n", "")
mut('C18', 'freshness-inverted', C, "        return store_mtime >= os.stat(filename).st_mtime", "        return store_mtime <= os.stat(filename).st_mtime")
mut('C18', 'unpickle-except-narrowed', C, "            except Exception:\n                # Broken cache entry, remove it", "            except EOFError:\n                # Broken cache entry, remove it")
mut('C18', 'broken-entry-not-removed', C, "                self._remove_filename(store_filename)\n                data = None", "                data = None")
mut('C18', 'clean-skipped', C, "        self._clean()\n", "        pass\n")
mut('C18', 'version-compare-always-equal', C, "        if current_hash == cache_hash:\n            return", "        if current_hash == cache_hash or cache_hash:\n            return")
mut('C18', 'versionhash-only-argv0', C, "    sources.append(sys.argv[0])", "    sources = [sys.argv[0]]")
mut('C18', 'versionhash-first-source-only', C, "    mtimes = (str(os.stat(source).st_mtime) for source in sources)", "    mtimes = (str(os.stat(source).st_mtime) for source in sources[:1])")
mut('C18', 'filename-keyed-on-basename', C, "hexdigest = hashlib.sha1(filename.encode('utf-8')).hexdigest()", "hexdigest = hashlib.sha1(os.path.basename(filename).encode('utf-8')).hexdigest()")
mut('C18', 'enoent-not-tolerated-in-load', C, "            if e.errno in (errno.ENOENT, errno.EACCES):\n                return None\n            else:\n                raise\n\n        with fd:", "            raise\n\n        with fd:")
mut('C18', 'D5-reintroduced', C, "            if e.errno in (errno.ENOENT, errno.EACCES):\n                return None\n            else:\n                raise\n\n        with fd:", "            if e.errno == errno.ENOENT:\n                return None\n            else:\n                raise\n\n        with fd:")
mut('C18', 'enoent-not-tolerated-in-remove', C, "            if e.errno in (errno.EACCES, errno.ENOENT):\n                return\n            else:\n                raise", "            if e.errno in (errno.EACCES,):\n                return\n            else:\n                raise")
mut('C18', 'store-wrong-path', T, "                self._cachestore.store(filename, parser, mtime_ns)", "                self._cachestore.store(os.path.join(os.path.dirname(os.path.dirname(filename)), 'a', os.path.basename(filename)), parser, mtime_ns)")
mut('C18', 'store-in-place-no-temp', C, "        try:\n            shutil.move(tmp_filename, store_filename)", "        try:\n            shutil.copyfile(tmp_filename, store_filename); os.unlink(tmp_filename)",
    note='writes the entry in place: since the midmod family exists this is D4 again (readers validate a copy that carries the time of the copy; two writers share an inode)')
mut('C18', 'never-store', T, "            if self._cachestore is not None:\n                self._cachestore.store(filename, parser, mtime_ns)", "            pass",
    note='a cache that never stores satisfies C18; the harness notices load_hit == 0 and exits 2', expect=2)
mut('C18', 'valid-uses-gt', C, "        return store_mtime >= os.stat(filename).st_mtime", "        return store_mtime > os.stat(filename).st_mtime",
    note='stricter freshness: still correct; must NOT be flagged', expect=0)

# ---- C16 (determinism) -----------------------------------------------------------------
G = 'giscanner/girwriter.py'
A = 'giscanner/ast.py'
mut('C16', 'includes-unsorted', G, "for include in sorted(namespace.includes):", "for include in namespace.includes:")
mut('C16', 'packages-unsorted', G, "for pkg in sorted(set(namespace.exported_packages)):", "for pkg in set(namespace.exported_packages):")
mut('C16', 'c-includes-unsorted', G, "for c_include in sorted(set(namespace.c_includes)):", "for c_include in set(namespace.c_includes):")
mut('C16', 'namespace-nodes-unsorted', G, "for node in sorted(namespace.values(), key=nscmp):", "for node in namespace.values():")
mut('C16', 'record-methods-unsorted', G, "            for method in sorted(record.methods):", "            for method in record.methods:")
mut('C16', 'record-ctors-unsorted', G, "            for method in sorted(record.constructors):", "            for method in record.constructors:")
mut('C16', 'record-static-unsorted', G, "            for method in sorted(record.static_methods):", "            for method in record.static_methods:")
mut('C16', 'class-ctors-unsorted', G, "                for method in sorted(node.constructors):", "                for method in node.constructors:")
mut('C16', 'class-methods-unsorted', G, "            for method in sorted(node.methods):", "            for method in node.methods:")
mut('C16', 'class-vfuncs-unsorted', G, "            for vfunc in sorted(node.virtual_methods):", "            for vfunc in node.virtual_methods:",
    note='virtual methods then follow the field order of the class struct, i.e. declaration order inside one header, which no variant changes: deterministic; must NOT be flagged', expect=0)
mut('C16', 'class-properties-unsorted', G, "            for prop in sorted(node.properties):", "            for prop in node.properties:",
    note='property order then follows the runtime dump, which is an input: deterministic, and independent of hash seed and arrival order; must NOT be flagged', expect=0)
mut('C16', 'class-interfaces-unsorted', G, "                for iface in sorted(node.interfaces):", "                for iface in node.interfaces:",
    note='order then follows the runtime dump (an input); must NOT be flagged', expect=0)
mut('C16', 'D6-reintroduced-include-order', T, "        for include in sorted(parser.get_namespace().includes):", "        for include in parser.get_namespace().includes:")
mut('C16', 'cached-dep-loses-packages', T, "        if not uninstalled:\n            for pkg in parser.get_namespace().exported_packages:", "        if not uninstalled and fresh:\n            for pkg in parser.get_namespace().exported_packages:",
    note='two-site mutant: packages of a dependency only registered when it was parsed afresh; they only feed the pkg-config call, never the output, so this is equivalent with respect to C16 and must NOT be flagged', expect=0)
M[-1]['also'] = [(T, "        parser = None\n        if self._cachestore is not None:\n            parser = self._cachestore.load(filename)\n        if parser is None:", "        parser = None\n        fresh = False\n        if self._cachestore is not None:\n            parser = self._cachestore.load(filename)\n        if parser is None:\n            fresh = True")]
mut('C16', 'tagns-struct-first-loses-ctype', T, "                compound.name = name\n                compound.ctype = symbol.ident", "                compound.name = name")
mut('C16', 'tagns-typedef-first-loses-fields', T, "        # Fields may need to be parsed in either of the above cases because the\n        # Record can be created with a typedef prior to the struct definition.\n        self._parse_fields(symbol, compound)",
    "        if symbol.ident not in self._tag_ns:\n            self._parse_fields(symbol, compound)")
mut('C16', 'main-position-prefers-typedef-by-set-order', A, "            if position.is_typedef:\n                res = position\n            else:\n                return position", "            return position")

# ---- correct refactors of the cache code: must NOT be flagged (expect 0) --------------------------
mut('C18', 'ok-os-replace-instead-of-move', C, "            shutil.move(tmp_filename, store_filename)\n        except (IOError, OSError) as e:\n            # Permission denied, or", "            os.replace(tmp_filename, store_filename)\n        except (IOError, OSError) as e:\n            # Permission denied, or", expect=0,
    note='same-directory temp file, so a plain atomic replace is equivalent')
mut('C18', 'ok-fsync-before-move', C, "                pickle.dump(data, tmp_file)\n", "                pickle.dump(data, tmp_file)\n                tmp_file.flush()\n                os.fsync(tmp_file.fileno())\n", expect=0)
mut('C18', 'ok-clean-with-scandir', C, "        for filename in os.listdir(self._directory):\n            if filename == _CACHE_VERSION_FILENAME:\n                continue\n            self._remove_filename(os.path.join(self._directory, filename))",
    "        with os.scandir(self._directory) as it:\n            entries = [e.name for e in it]\n        for filename in entries:\n            if filename == _CACHE_VERSION_FILENAME:\n                continue\n            self._remove_filename(os.path.join(self._directory, filename))", expect=0)
mut('C18', 'ok-versionhash-sorted-sources', C, "    sources.append(sys.argv[0])", "    sources.sort()\n    sources.append(sys.argv[0])", expect=0)
mut('C18', 'ok-load-fstat-directly', C, "            if not self._cache_is_valid(fd.fileno(), filename):", "            if os.fstat(fd.fileno()).st_mtime < os.stat(filename).st_mtime:", expect=0)
mut('C18', 'ok-always-restore', C, "        if self._cache_is_valid(store_filename, filename):\n            return None\n\n        # Create", "        # Create", expect=0,
    note='always re-storing is wasteful but never serves stale data')
mut('C18', 'ok-namedtemporaryfile', C, "            tmp_fd, tmp_filename = tempfile.mkstemp(prefix='g-ir-scanner-cache-',\n                                                    dir=self._directory)",
    "            tmp_obj = tempfile.NamedTemporaryFile(prefix='g-ir-scanner-cache-', dir=self._directory, delete=False)\n            tmp_obj.close()\n            tmp_fd, tmp_filename = os.open(tmp_obj.name, os.O_WRONLY), tmp_obj.name", expect=1,
    note='was expected quiet until purges could run concurrently with stores (mid-run upgrades): the temp file is closed and re-opened by name, '
         'and a purge in between makes the store raise ENOENT and kill the scan - the D2 kind of defect; must be flagged now')


def run_one(m, extra_env=None):
    scratch = tempfile.mkdtemp(prefix='verif-mut-')
    try:
        shutil.copytree(os.path.join(REPO, 'giscanner'), os.path.join(scratch, 'giscanner'),
                        ignore=shutil.ignore_patterns('__pycache__'))
        os.symlink(os.path.join(REPO, 'tests'), os.path.join(scratch, 'tests'))
        p = os.path.join(scratch, m['path'])
        s = open(p).read()
        if m['old'] not in s:
            return {'name': m['name'], 'error': 'pattern not found'}
        open(p, 'w').write(s.replace(m['old'], m['new'], 1))
        for path2, old2, new2 in m.get('also', []):
            p2 = os.path.join(scratch, path2)
            s2 = open(p2).read()
            if old2 not in s2:
                return {'name': m['name'], 'error': 'second pattern not found'}
            open(p2, 'w').write(s2.replace(old2, new2, 1))
        env = dict(os.environ, VERIF_REPO=scratch, VERIF_EVIDENCE_DIR=os.path.join(scratch, 'evidence'),
                   VERIF_REPLAY_DIR=os.path.join(scratch, 'replays'))
        env.update(extra_env or {})
        t0 = time.time()
        r = subprocess.run([os.path.join(VERIF, 'check'), m['prop'], '--tier', 'quick'], env=env,
                           stdout=subprocess.PIPE, stderr=subprocess.STDOUT, text=True, timeout=1800)
        viol = [l for l in r.stdout.splitlines() if l.startswith('violation ')]
        return {'name': m['name'], 'prop': m['prop'], 'exit': r.returncode, 'expect': m['expect'],
                'ok': r.returncode == m['expect'], 'wall': round(time.time() - t0, 1),
                'violations': [v[:160] for v in viol[:3]], 'tail': r.stdout.splitlines()[-3:] if r.returncode != m['expect'] else []}
    finally:
        shutil.rmtree(scratch, ignore_errors=True)


def main():
    prop = sys.argv[1] if len(sys.argv) > 1 else None
    sub = sys.argv[2] if len(sys.argv) > 2 else ''
    out = []
    for m in M:
        if prop and m['prop'] != prop:
            continue
        if sub and sub not in m['name']:
            continue
        r = run_one(m)
        out.append(r)
        print(json.dumps(r), flush=True)
    bad = [r for r in out if not r.get('ok')]
    print('%d mutants, %d as expected, %d not' % (len(out), len(out) - len(bad), len(bad)))


if __name__ == '__main__':
    main()
