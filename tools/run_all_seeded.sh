#!/bin/sh
# tools/run_all_seeded.sh -- run every seeded change against its property's quick check (one at a time,
# /repo restored after each) and print one line per change.  Expected: exit 1 for all but the three
# documented exceptions (c20-phantom-stack-entry-on-bad-attr: outside C20's domain;
# c16-ctype-lookup-by-registration-order: made harmless by fix 267d78b;
# c18-stamp-before-purge: made harmless by fix 62da8e8).
here=$(cd "$(dirname "$0")/.." && pwd)
for d in "$here"/seeded/*/; do
  id=$(basename "$d")
  prop=$(/venv/bin/python -c "import json,sys; print(json.load(open(sys.argv[1]))['property'])" "$d/meta.json")
  out=$("$here/tools/run_seeded.sh" "$id" "$prop" 2>&1)
  code=$(printf '%s\n' "$out" | sed -n 's/^seeded=.* exit=\([0-9]*\)$/\1/p' | tail -1)
  sig=$(printf '%s\n' "$out" | grep '^violation ' | head -1 | cut -c11-90)
  echo "$id $prop exit=$code $sig"
done
