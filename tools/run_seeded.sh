#!/bin/sh
# tools/run_seeded.sh <seeded id> <property> [tier]  -- apply a seeded change to /repo, run the check, undo it.
# The patch is never committed; /repo is restored even if the check fails.
id=$1; prop=$2; tier=${3:-quick}
here=$(cd "$(dirname "$0")/.." && pwd)
repo=${VERIF_REPO:-/repo}          # a private copy (vp run --with-repo: VERIF_REPO=$VP_RUN_REPO) leaves /repo alone
git -C "$repo" diff --quiet || { echo "$repo has uncommitted changes" >&2; exit 3; }
git -C "$repo" apply "$here/seeded/$id/patch.diff" || exit 3
trap 'git -C "$repo" checkout -- .' EXIT INT TERM
VERIF_EVIDENCE_DIR=/tmp/seeded-evidence VERIF_REPLAY_DIR=/tmp/seeded-replays "$here/check" "$prop" --tier "$tier"
code=$?
echo "seeded=$id property=$prop tier=$tier exit=$code"
exit $code
