#!/venv/bin/python
"""Reach measure for engine E2: which lines of giscanner/ do the generated scan jobs execute?
Runs N jobs' baselines in-process under coverage.py (not a check; used to steer the generator).
    tools/e2_coverage.py [N] [missing=<module>[,<module>...]]   (e.g. missing=maintransformer lists its unexecuted lines)"""
import io, json, os, shutil, sys, tempfile
sys.path.insert(0, os.path.dirname(os.path.dirname(os.path.abspath(__file__))))
import coverage
from sim import core
core.repo_import_path()
cov = coverage.Coverage(include=[os.path.join(core.REPO, 'giscanner', '*.py')], data_file=None)
cov.start()
from sim import scansim, scanjobs, scanchild
n = int(sys.argv[1]) if len(sys.argv) > 1 and sys.argv[1].isdigit() else 30
want_missing = [m for a in sys.argv[1:] if a.startswith('missing=') for m in a[8:].split(',')]
done = 0
for i in range(n):
    seed, job, variants = scansim.make_job(0, i, False)
    jobdir = tempfile.mkdtemp(prefix='verif-cov-')
    try:
        jp = scansim.write_job_dir(job, jobdir)
        cov.stop()
        scansim.build_dependencies(job, jobdir)      # dependencies via the fork server (not measured)
        cov.start()
        j = json.load(open(jp))
        pid = os.fork()
        if pid == 0:
            # measured child: run the scanner in-process, then save coverage data
            c2 = coverage.Coverage(include=[os.path.join(core.REPO, 'giscanner', '*.py')], data_file='/tmp/e2cov.%d' % i)
            c2.start()
            try:
                scanchild.run_scanner(j, {'cache_dir': os.path.join(jobdir, 'cache')}, os.path.join(jobdir, 'out', 'x.gir'),
                                      os.path.join(jobdir, 'out', 'x.log'), inproc=True)
            except BaseException:
                pass
            c2.stop(); c2.save(); os._exit(0)
        os.waitpid(pid, 0)
        done += 1
    finally:
        shutil.rmtree(jobdir, ignore_errors=True)
cov.stop()
scansim.servers().stop_all()
comb = coverage.Coverage(include=[os.path.join(core.REPO, 'giscanner', '*.py')], data_file='/tmp/e2cov.combined')
comb.combine(['/tmp/e2cov.%d' % i for i in range(n) if os.path.exists('/tmp/e2cov.%d' % i)])
out = io.StringIO()
comb.report(file=out, show_missing=False)
print(out.getvalue())
for f in ('girwriter.py', 'maintransformer.py', 'transformer.py', 'gdumpparser.py', 'ast.py'):
    path = os.path.join(core.REPO, 'giscanner', f)
    an = comb.analysis2(path)
    missing = set(an[3])
    src = open(path).read().splitlines()
    hits = [(ln, src[ln - 1].strip()) for ln in sorted(missing) if 'sorted(' in src[ln - 1] or 'set(' in src[ln - 1]]
    if hits:
        print(f, 'unexecuted lines with sorted()/set():')
        for ln, t in hits:
            print('   %5d  %s' % (ln, t[:110]))
for m in want_missing:
    path = os.path.join(core.REPO, 'giscanner', m + '.py')
    src = open(path).read().splitlines()
    print('=====', m, 'unexecuted lines')
    for ln in sorted(comb.analysis2(path)[3]):
        print('%5d %s' % (ln, src[ln - 1][:120]))
for i in range(n):
    try:
        os.unlink('/tmp/e2cov.%d' % i)
    except OSError:
        pass
