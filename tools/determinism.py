#!/venv/bin/python
"""Large determinism check for engine E1 (not a registered check): the event-log digests of N runs
must be identical (a) across worker counts, (b) across interpreter hash seeds, (c) across two
executions.  Usage: tools/determinism.py [N] ; re-executes itself for the other hash seeds."""
import json, os, subprocess, sys
sys.path.insert(0, os.path.dirname(os.path.dirname(os.path.abspath(__file__))))
from sim import core

def one(i):
    from sim import cachesim
    return cachesim.execute(cachesim.make_spec(int(os.environ.get('VERIF_SEED', '0')), i, False))['digest']

def digests(n, jobs):
    core.repo_import_path()
    return core.pmap(one, range(n), jobs=jobs, chunk=16)

if __name__ == '__main__':
    n = int(sys.argv[1]) if len(sys.argv) > 1 else 3000
    if len(sys.argv) > 2:                      # child mode: print digests as JSON
        print(json.dumps(digests(n, int(sys.argv[2]))))
        sys.exit(0)
    base = digests(n, 8)
    problems = 0
    for hs, jobs in (('0', 3), ('1', 8), ('4242', 5), ('123456789', 8)):
        env = dict(os.environ, PYTHONHASHSEED=hs)
        out = subprocess.run([sys.executable, __file__, str(n), str(jobs)], env=env, stdout=subprocess.PIPE, text=True, check=True).stdout
        other = json.loads(out.strip().splitlines()[-1])
        diff = [i for i, (a, b) in enumerate(zip(base, other)) if a != b]
        print('PYTHONHASHSEED=%s workers=%d: %d of %d digests differ %s' % (hs, jobs, len(diff), n, diff[:5]))
        problems += len(diff)
    print('DETERMINISM %s' % ('OK' if not problems else 'BROKEN'))
    sys.exit(1 if problems else 0)
