import os, sys, subprocess, tempfile, shutil, textwrap
ROOT = os.environ.get('SEED_ROOT', '/repo')
GIR = '''<?xml version="1.0"?>
<repository version="1.2" xmlns="http://www.gtk.org/introspection/core/1.0" xmlns:c="http://www.gtk.org/introspection/c/1.0">
  <namespace name="Base" version="1.0" c:identifier-prefixes="Base" c:symbol-prefixes="base">
    <record name="%s" c:type="Base%s"/>
  </namespace>
</repository>
'''
CHILD = textwrap.dedent('''
    import sys, types, os, builtins
    sys.path.insert(0, %r)
    stub = types.ModuleType('giscanner._giscanner')
    stub.SourceScanner = type('SourceScanner', (object,), {})
    sys.modules['giscanner._giscanner'] = stub
    builtins.__dict__['DATADIR'] = '/nonexistent'; builtins.__dict__['GIR_DIR'] = '/nonexistent'
    sys.argv = [os.path.join(%r, 'giscanner', '__init__.py')]
    from giscanner import ast
    from giscanner.transformer import Transformer
    t = Transformer(ast.Namespace('Main', '1.0'))
    t.set_include_paths(['deps'])                       # as with --add-include-path=deps
    t.register_include(ast.Include('Base', '1.0'))
    ns = t._parsed_includes['Base']
    print(','.join(sorted(ns.names)))
''') % (ROOT, ROOT)
top = tempfile.mkdtemp(prefix='c18-relkey-')
try:
    env = dict(os.environ, XDG_CACHE_HOME=os.path.join(top, 'cache'), HOME=top)
    for tree, rec, when in (('a', 'Alpha', 2000000000), ('b', 'Beta', 1900000000)):
        os.makedirs(os.path.join(top, tree, 'deps'))
        p = os.path.join(top, tree, 'deps', 'Base-1.0.gir')
        open(p, 'w').write(GIR % (rec, rec))
        os.utime(p, (when, when))
    out = {}
    for tree in ('a', 'b'):
        out[tree] = subprocess.run([sys.executable, '-c', CHILD], cwd=os.path.join(top, tree), env=env,
                                   capture_output=True, text=True)
        print('scan in tree %s: Base namespace holds %s %s' % (tree, out[tree].stdout.strip(), out[tree].stderr.strip()[-300:]))
    bad = out['b'].stdout.strip() != 'Beta'
    print('BROKEN: the scan in tree b was served the parse of tree a\'s deps/Base-1.0.gir' if bad else 'ok')
    sys.exit(1 if bad else 0)
finally:
    shutil.rmtree(top, ignore_errors=True)
