"""D8 outside the simulator: real processes, real file system, the code of $SEED_ROOT (default /repo).

A scanner of version 1 is running (its CacheStore exists).  The scanner installation is upgraded
(a module's time stamp changes).  A scanner of version 2 starts: it purges the cache and writes
its stamp.  The version-1 scanner then finishes its store.  A second version-2 scanner loads the
dependency: it must not be handed what the version-1 scanner pickled.
Exit 1 when it is, 0 when it is not."""
import os, shutil, subprocess, sys, tempfile, textwrap, time
ROOT = os.environ.get('SEED_ROOT', '/repo')
top = tempfile.mkdtemp(prefix='c18-d8-')
CHILD = textwrap.dedent('''
    import os, sys, time, types, builtins
    top, role = sys.argv[1], sys.argv[2]
    sys.path.insert(0, os.path.join(top, 'lib'))
    stub = types.ModuleType('giscanner._giscanner'); stub.SourceScanner = type('SourceScanner', (object,), {})
    sys.modules['giscanner._giscanner'] = stub
    builtins.__dict__['DATADIR'] = '/nonexistent'; builtins.__dict__['GIR_DIR'] = '/nonexistent'
    sys.argv = [os.path.join(top, 'bin', 'g-ir-scanner')]
    from giscanner.cachestore import CacheStore
    gir = os.path.join(top, 'Dep-1.0.gir')
    store = CacheStore()
    if role == 'old':
        open(os.path.join(top, 'old-constructed'), 'w').close()
        while not os.path.exists(os.path.join(top, 'go')):
            time.sleep(0.01)
        store.store(gir, {'pickled-by-scanner-version': 1})
    elif role == 'new-first':
        pass                                   # constructing it purged the cache and wrote the stamp
    else:
        print(repr(store.load(gir)))
''')
try:
    shutil.copytree(os.path.join(ROOT, 'giscanner'), os.path.join(top, 'lib', 'giscanner'),
                    ignore=shutil.ignore_patterns('__pycache__', '*.c', '*.h', '*.l', '*.y'))
    os.makedirs(os.path.join(top, 'bin'))
    open(os.path.join(top, 'bin', 'g-ir-scanner'), 'w').write('#!python\n')
    open(os.path.join(top, 'Dep-1.0.gir'), 'w').write('<repository/>\n')
    os.utime(os.path.join(top, 'Dep-1.0.gir'), (1500000000, 1500000000))
    open(os.path.join(top, 'child.py'), 'w').write(CHILD)
    env = dict(os.environ, XDG_CACHE_HOME=os.path.join(top, 'cache'), HOME=top, PYTHONDONTWRITEBYTECODE='1')
    run = lambda role, **kw: subprocess.Popen([sys.executable, os.path.join(top, 'child.py'), top, role], env=env, **kw)
    old = run('old')
    while not os.path.exists(os.path.join(top, 'old-constructed')):
        time.sleep(0.01)
    mod = os.path.join(top, 'lib', 'giscanner', 'ast.py')           # the upgrade
    st = os.stat(mod)
    os.utime(mod, (st.st_atime, st.st_mtime + 1000))
    run('new-first').wait()
    open(os.path.join(top, 'go'), 'w').close()
    old.wait()
    got = run('new-second', stdout=subprocess.PIPE, text=True).communicate()[0].strip()
    print('version-2 scanner loaded:', got)
    bad = 'pickled-by-scanner-version' in got
    print('BROKEN: an entry pickled by the version-1 scanner after the purge was served to version 2' if bad else 'ok')
    sys.exit(1 if bad else 0)
finally:
    shutil.rmtree(top, ignore_errors=True)
